#!/venv/bin/python
"""tools/seed_table.py -> markdown table of seeded/<id>/meta.json (for DESIGN.md §8)"""
import json, os, glob
HERE = os.path.dirname(os.path.dirname(os.path.abspath(__file__)))
rows = []
for d in sorted(glob.glob(os.path.join(HERE, "seeded", "*"))):
    mp = os.path.join(d, "meta.json")
    if not os.path.exists(mp):
        continue
    m = json.load(open(mp))
    v = m.get("verified_here", {})
    chk = v.get("checks", {})
    valid = v.get("patch_applies") and v.get("demo_with_patch_rc") == 1 and v.get("demo_without_patch_rc") == 0 \
        and v.get("baseline_passes")
    res = ", ".join("%s: %s" % (c, "DETECTED (%d sig.)" % len(r.get("signatures", [])) if r.get("detected") else "missed")
                    for c, r in chk.items())
    what = (m.get("what_breaks") or "").split(". ")[0][:150]
    rows.append("| %s | %s | %s | %s | %s |" % (os.path.basename(d), ", ".join(m.get("files_touched", []))[:60],
                                               what.replace("|", "/"), "yes" if valid else "NO", res + (" — " + m["note"] if m.get("note") else "")))
print("| seed | file | what it breaks | valid on HEAD | quick check |")
print("|---|---|---|---|---|")
print("\n".join(rows))
