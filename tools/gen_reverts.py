#!/venv/bin/python
"""tools/gen_reverts.py -- (re)write mutants/revert/<cNN>_<sha7>.patch, the reverse of every fix:
commit listed in known_findings.json; prints the names that are new"""
import json, os, re, subprocess
HERE = os.path.dirname(os.path.dirname(os.path.abspath(__file__)))
k = json.load(open(os.path.join(HERE, "known_findings.json")))
os.makedirs(os.path.join(HERE, "mutants", "revert"), exist_ok=True)
for line in k["fixed"]:
    m = re.match(r"fixed: property=(C\d\d) ([0-9a-f]+) ", line)
    prop, sha = m.group(1), m.group(2)
    path = os.path.join(HERE, "mutants", "revert", "%s_%s.patch" % (prop.lower(), sha[:7]))
    new = not os.path.exists(path)
    d = subprocess.run(["git", "-C", "/repo", "diff", sha, sha + "^"], capture_output=True, text=True).stdout
    open(path, "w").write(d)
    if new:
        print(os.path.basename(path))
