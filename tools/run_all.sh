#!/bin/sh
# tools/run_all.sh [tier] [seed] -- run every registered check in /verif against /repo, one after the other
cd "$(dirname "$0")/.."
tier=${1:-quick}; seed=${2:-1}
for c in $(python3 -c "import json;print(' '.join(x['property_id'] for x in json.load(open('MANIFEST.json'))['checks']))"); do
  ./check $c --tier $tier --seed $seed > ${RUN_ALL_LOGDIR:-/tmp}/run_all_$c.log 2>&1; rc=$?
  echo "$c rc=$rc $(grep ' tier=' ${RUN_ALL_LOGDIR:-/tmp}/run_all_$c.log | tail -1)"
  grep '^VIOLATION' ${RUN_ALL_LOGDIR:-/tmp}/run_all_$c.log | head -5
done
