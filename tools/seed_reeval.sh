#!/bin/sh
# tools/seed_reeval.sh -- re-run tools/seed_eval.py for every seeded/<name>/ (after generator changes:
# a seed that was detected must still be); prints one line per seed, summary in seeded/REEVAL.txt
cd "$(dirname "$0")/.."
: > ${REEVAL_OUT:-seeded/REEVAL.txt}
for d in seeded/*/; do
  n=$(basename $d); p=$(echo $n | cut -c1-3)
  extra=""
  case $n in C02-r2-2) extra="--checks=C02,C16";; C05-r3-3) extra="--checks=C05,C02";; C10-r3-2) extra="--checks=C10,C09";; C10-r2-3) extra="--checks=C10,C13";; esac
  cp -r $d /tmp/reeval_src_$n
  tools/seed_eval.py $p /tmp/reeval_src_$n $n $extra 2>&1 | tail -1 | tee -a ${REEVAL_OUT:-seeded/REEVAL.txt}
  rm -rf /tmp/reeval_src_$n
done
