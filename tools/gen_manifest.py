#!/venv/bin/python
"""Regenerate MANIFEST.json from the table below (kept next to the code so the manifest
never drifts from what is built)."""
import json, os
HERE = os.path.dirname(os.path.dirname(os.path.abspath(__file__)))

CHECKS = {
 "C15": dict(
    design="DESIGN.md §3 C15",
    technique="model-based (stateful) property-based testing: Hypothesis-generated operation histories interpreted against a plain-dict reference model with an invariant after every step; exhaustive enumeration of short continuations; hash-seed replay in fresh subprocesses",
    text="Exploration: histories of 4-30 derivation and evolution operations (primitive customisation, customize, child_attrs / child_attrs_all, database-mapping keywords, Array / Iterable / unwrapped arrays, Mandatory, subclassing, append_field / insert_field) over a pool of models; after every step every pooled model (attributes, ordered fields, parents, validation verdicts on probe sets) is compared by value with a reference model updated by the documented effect of the step: the new type carries exactly the requested constraints, every other model is unchanged except for the documented propagation of added fields to customized variants; at the end field order in type info, schema sequence and XML/JSON output is compared and the history is replayed under three PYTHONHASHSEED values in fresh interpreters. All 2-step (thorough: 3-step) continuations over a 24-operation alphabet are enumerated exhaustively. Held on everything explored; not a proof.",
    note="Trusted: the reference model (Machine) in pbt/props/c15.py. Adding fields to a customized variant (rather than to the class itself) is outside the domain: its effect on sibling variants is undocumented."),
 "C12": dict(
    design="DESIGN.md §3 C12",
    technique="schedule exploration (systematic concurrency testing in the PBT family): real threads made cooperative by a sys.settrace scheduler the harness owns (pbt/sched.py); exhaustive single-pre-emption schedules, a grid of double pre-emptions, Hypothesis-generated pre-emption lists and PCT priority schedules, plus un-scheduled stress; oracle: byte-identical response to the request processed alone, WSDL built at most once, all ?wsdl callers get the sequential document, no escape, no deadlock",
    text="Exploration: mixes of 2-4 requests (?wsdl, cold and warm rpc calls over XML/SOAP/JSON/HttpRpc, schema-invalid and raising requests) against ONE fresh WsgiApplication on real threads; a scheduler installed with sys.settrace lets exactly one thread run and moves the baton only at yield points (every line inside handle_wsdl_request, wsdl11.py, xml_schema/_base.py, get_cls_attrs, sort_fields, memoize.__call__, __validate_lxml; every call elsewhere under spyne/protocol, server, interface, application.py); spyne's locks are replaced by scheduler-aware ones. Quick: all orders without pre-emption, ALL single-pre-emption schedules (stride 1, both start orders) for 17 of 20 two-thread mixes, an 8x8 grid of double pre-emptions, generated lists of <=4 pre-emptions and PCT schedules for all mixes, 6400 free-running stress requests (~30k schedules). Thorough: all 20 mixes, 48x48 grids (~230k schedules). Bounds: Python line/call granularity (switches inside C code only in the stress part), a line is a yield point the first two times one activation reaches it, 3+ pre-emptions and 3-4-thread mixes sampled.",
    note="Trusted: the scheduler (pbt/sched.py; selftested on synthetic racy/locked workers), determinism of a request processed alone (each alone-response is computed twice and must agree). Runs whose worker blocks outside the scheduler's view for 2 s are counted inconclusive, never judged."),
 "C14": dict(
    design="DESIGN.md §3 C14",
    technique="exhaustive grid enumeration with injected failures + property-based testing (Hypothesis-generated argument values on random grid cells); oracle: specification automaton over the event trace recorded by listeners at application / service / method level and protocol / transport observers",
    text="Exploration: the whole grid protocol family {xml, soap11, json, msgpack, yaml, HttpRpc GET} x transport {ServerBase pipeline, WsgiApplication, NullServer with and without ostr} x failure point {success, malformed bytes, 3 bad SOAP envelopes, unknown method, invalid argument, raising method_call listener, raising method_return_object listener, raising function, unserialisable return value (XML family)} x {Fault, non-Fault} x listener layout (application / service / inherited-from-base-service / method level, duplicates) x level of the raising listener is enumerated (2,799 cells x 3 argument sets), plus 16 x 600 Hypothesis examples of 8 cells each with generated arguments (quick; thorough 64 x 3000). Every case builds a fresh application; the automaton checks first/last/exactly-once of context_created/closed, function at most once and only after method_call, return_object iff returned, exception_object iff fault followed by the matching document and string events, registration order, duplicates once, inheritance. Bounds: single injected failure per call; synchronous NullServer proxy only; no order asserted between managers of different levels.",
    note="Trusted: the specification automaton in pbt/props/c14.py (written from the property text and the class docstrings); one shared ordered trace."),
 "C11": dict(
    design="DESIGN.md §3 C11",
    technique="property-based testing (Hypothesis) over generated applications with adversarially similar method names x enumerated service orders x enumerated near-miss requests; oracle: reference routing table computed from the spec alone + per-function invocation counters + Client fault for unregistered names",
    text="Exploration: generated applications (9 ways of naming the method: XmlDocument/Soap11/Soap12 root tag, Json/Yaml/MessagePack single key, msgpack-rpc field, HttpRpc URL path, HttpPattern; 2-6 services x 1-6 methods whose names are case/prefix/suffix/dotted variants of 1-2 stems, custom _operation_name/_in_message_name, bare and wrapped signatures, auxiliary services, deliberate clashes, same-named service classes) are built under every permutation of the service list (all permutations up to 3 services quick / 4 thorough, sampled above) and every registered name plus its near misses (case flips, one-char prefix/suffix added or removed, Response/Result suffix, one-char substitution, other namespace, unqualified, empty) is requested; ~430k requests quick, ~11M thorough. Exactly the reference function plus its auxiliaries must run once; unregistered names run nothing and get a Client fault; construction result and outcome must not depend on the order; clashes must be refused at construction. Bounds: pattern addresses pairwise non-overlapping; no host patterns; GET/DELETE/OPTIONS verbs only.",
    note="Trusted: the reference routing table in pbt/props/c11.py (public name = _in_message_name or _operation_name or function key, read off decorator.py)."),
 "C10": dict(
    design="DESIGN.md §3 C10",
    technique="mutation-based fuzzing driven by Hypothesis over generated valid requests (exhaustive prefix truncation, byte edits, structure-aware mutants); oracle: nothing escapes, reply is normal or a Client-family fault, no user function ran on a fault",
    text="Exploration: generated valid requests for XmlDocument/Soap11/Soap12 (validator None/soft/lxml), JSON/YAML/MessagePack/msgpack-rpc (None/soft) and HttpRpc are truncated at every prefix, edited at byte level (flip, delete, insert, duplicate, swap, random bytes) and mutated structure-aware (type-specific nasty leaf values incl. the range edges of the native types, custom strptime formats on date/time types, xsi:type garbage, deletions, duplications, unknown members, wrong kinds and nesting, broken SOAP envelopes, dangling / self / ancestor multiref hrefs, huge array indexes, YAML/JSON/msgpack syntax traps, msgpack-rpc arity/type errors), through the pipeline and WsgiApplication with Content-Type/charset variations (unknown and empty charsets, multipart/related with and without Content-ID); no exception may escape, the reply must be a normal response or a Client-family fault with the documented HTTP status class, and no user function may have run when a fault is returned. Held on everything explored; not a proof.",
    note="Trusted: the fault decoders of C09; user functions of this check never raise, so a Server fault is attributable to the request. Coverage-guided atheris fuzzing is not part of the registered commands."),
 "C13": dict(
    design="DESIGN.md §3 C13",
    technique="exhaustive grid enumeration + property-based testing (Hypothesis) with client aborts as injected faults; oracles: PEP 3333 event-log automaton, wsgiref.validate, byte-counting wsgi.input, context-close listeners",
    text="Exploration: every request outcome class (success, fault classes, validation error, unknown method, malformed body, ?wsdl with and without a listener that edits the document, injected WSDL failure, generator and user-set streams) x CONTENT_LENGTH spelling (absent, empty, smaller, equal, larger, over the limit, non-numeric) x max_content_length around the body length x block_length x chunked on/off x client abort after k chunks, for XmlDocument/Soap11/Json/HttpRpc: start_response exactly once before any chunk with str status/headers, bytes chunks, Content-Length equal to the body size, at most max_content_length and at most the declared length ever read, over-long requests answered with RequestTooLong without running user code, method_context_closed/wsgi_close exactly once and not before the body was handed over (or close() was called). Three grids are enumerated completely in both tiers with Hypothesis-generated cases on top. Held on everything explored; not a proof.",
    note="Trusted: wsgiref.validate and the harness' single ordered event log."),
 "C04": dict(
    design="DESIGN.md §3 C04",
    technique="property-based testing with type-directed mutation of generated valid requests (Hypothesis); oracle: declared-type walk of everything the recording user function received, Client-family fault otherwise",
    text="Exploration: valid requests from the C01/C02/C03 generators are mutated type-directedly - xsi:type retagging of any element with any class key of the interface (exhaustively element x key on one application for a quarter of the cases, so that earlier valid substitutions precede invalid ones; prefix bound, unbound or shadowed) under XmlDocument/Soap11/Soap12 x validator None/soft/lxml; JSON-kind swaps at any node (int and float distinguished), wrapper-key renames and wrong-arity positional lists under JSON/YAML/MessagePack/msgpack-rpc (soft); scalar-vs-object path confusions, duplicate keys and garbage values under HttpRpc (soft). Whenever the function runs, every argument and nested member must be None, of the declared native type, of a registered subclass of the declared class, or a list of such; otherwise the reply must be a Client-family fault and nothing may escape. Held on everything explored; not a proof.",
    note="Trusted: the native-type table in pbt/props/c04.py (NATIVE) and the spec-driven walk type_violation()."),
 "C17": dict(
    design="DESIGN.md §3 C17",
    technique="structure-aware fuzzing / property-based testing: attack constructs enumerated at every text and attribute position with Hypothesis-drawn parameters; oracles: strace (open/openat/connect) with per-subprocess control calibration, canary tokens, loop-back listener, rusage bounds",
    text="Exploration: for XmlDocument/Soap11/Soap12 x validator None/soft/lxml x pipeline/WSGI/SOAP-with-attachments, 15 attack constructs (external general and parameter entities over file/http/ftp/relative, external DTD subsets, XInclude, internal entities, entity chains, quadratic blow-up, recursive entities, deep nesting, 1e5 attributes, huge text) are placed at every text and attribute-value position of three base requests, in subprocesses where applications that opted in to the unsafe parser options have served a request first; under strace no canary file may be opened and no connection attempted (a control open+connect in every subprocess must be visible), no canary token may reach user code or the reply, internal entities in text must not be expanded, bombs must end in Client.XMLSyntaxError, each document must stay under 2 s CPU / 256 MiB, and nothing may escape. Held on everything explored; not a proof.",
    note="Trusted: strace seeing every open/openat/connect (calibrated per subprocess), libxml2's own amplification and depth limits as the definition of a bomb."),
 "C06": dict(
    design="DESIGN.md §3 C06",
    technique="property-based testing (Hypothesis); oracles: libxml2 schema compilation and validation of everything spyne emits, lxml-vs-soft verdict differential arbitrated by an independent constraint predicate",
    text="Exploration: for generated universes (multi-namespace, inheritance, attributes, enums, restrictions) the validation schema and the schemas embedded in the WSDL (written out and compiled independently by libxml2) must compile; every request emitted by spyne's own client and every response emitted by the server for conformant boundary-biased values must validate (XmlDocument/Soap11/Soap12); and C05's constrained types x positions x near-boundary logical requests are sent to validator='lxml' and validator='soft', whose verdicts must agree for the shared facets. Held on everything explored; not a proof.",
    note="Trusted: libxml2 as schema processor; the reference predicate of C05 to say which side is wrong."),
 "C16": dict(
    design="DESIGN.md §3 C16",
    technique="property-based testing (Hypothesis) over generated class trees; oracles: exact runtime class + field equality at the server function, the spyne client and independent reference decoders; QName resolution of type markers inside the transmitted document",
    text="Exploration: generated class trees (depth <=3, subclasses in the base's namespace), signatures taking/returning the base class or a customized variant of it, arrays and repeated members of it holding mixed subclasses, for XmlDocument/Soap11/Soap12 and JSON/YAML/MessagePack with ignore_wrappers=False, polymorphic on and off, in both directions: with polymorphism the receiver must rebuild the same subclass with equal fields and the type marker must resolve in the document and name a schema type; without it exactly the declared class's members travel; members appear ancestors-first. Held on everything explored; not a proof.",
    note="Trusted: pbt/ref_xml.py and pbt/ref_dict.py decoders. MessagePack requests come from the reference codec (spyne's msgpack client cannot be read back by its own server, recorded in DESIGN)."),
 "C18": dict(
    design="DESIGN.md §3 C18",
    technique="property-based differential testing (Hypothesis): NullServer vs XmlDocument / Soap11 / JsonDocument wire paths decoded by independent reference decoders",
    text="Exploration: generated signatures in the body styles NullServer supports (wrapped, out_bare, empty, bare with a complex argument passed field-wise), 0-4 arguments, 0-3 returns, outcomes return / raised Fault / generator for an Iterable / Ignored, positional / keyword / mixed calls: the NullServer result or raised fault and the reference-decoded wire replies must both equal the scripted outcome, the function must see equal arguments on every path, and an Ignored return must reach the direct caller but be empty on the wire. Held on everything explored; not a proof.",
    note="Trusted: reference decoders; the fault decoders of C09."),
 "C03": dict(
    design="DESIGN.md §3 C03",
    technique="property-based testing (Hypothesis) with metamorphic permutation of query pairs; oracles: recording user function + independent reference flattening",
    text="Exploration: generated signatures of primitives, primitive arrays, nested objects and arrays of objects are spelled as query strings by an independent reference flattener (a.b.c, a[0].b, repeated keys, percent-encoding), with order-preserving permutations of the pairs, contiguous and sparse indices, four hier_delim choices, strict_arrays on/off and validator None/soft, and sent through WsgiApplication GET; the recorded arguments must equal the sent values with arrays in index order, a single primitive return must be sent as its exact bytes, and the members of a declared out-header class set by the function must arrive as HTTP response headers (independently computed spellings); conversely object -> flat dict -> object must give an equal object (empty sequences of objects kept). Held on everything explored; not a proof.",
    note="Trusted: pbt/ref_flat.py, urllib.parse.quote. POST form bodies are not exercised (werkzeug is not installed)."),
 "C05": dict(
    design="DESIGN.md §3 C05",
    technique="property-based testing (Hypothesis) + exhaustive enumeration of fixed-width integer bounds; oracle: independent constraint predicate, cross-protocol agreement, user-function recorder",
    text="Exploration: one constrained type from the facet lattice (nillable, min/max occurs, ge/gt/le/lt incl. an inclusive and an exclusive bound on the same side, fixed width, length, pattern, enumeration, default) at four positions (argument, nested field, array member, XML attribute) receives values on / just inside / just outside every bound, ill-formed and Python-only literals, explicit nulls, xsi:nil variants, absences and occurrence counts 0..max+2 (with the offending occurrence first, in the middle or last), rendered into XmlDocument, Soap11, JSON, YAML, MessagePack and HttpRpc with validator='soft'; accept <=> the function ran with the equal value, reject <=> it did not run and the fault code is in the Client family. Fixed-width bounds are enumerated exhaustively (all 8/16-bit values in the thorough tier). Held on everything explored; not a proof.",
    note="Trusted: the ten-line-per-facet reference predicate in pbt/props/c05.py (verdict/valid_value), Python re for the shared regex subset."),
 "C07": dict(
    design="DESIGN.md §3 C07",
    technique="property-based testing (Hypothesis) over generated applications; oracles: own QName-closure resolver, structural correspondence, byte identity across rebuilds and PYTHONHASHSEED values in fresh subprocesses, zeep client built from the WSDL bytes alone",
    text="Exploration: generated applications (1-4 services, custom operation/in-message names, in/out headers, declared faults, port types, 1-3 namespaces, all body styles, Soap11/Soap12) are rendered to WSDL; every QName-valued attribute must resolve, every method must map to exactly one portType operation with matching binding operation, messages and faults, the bytes must be identical across two in-process builds and fresh processes under 3 hash seeds, and zeep (given only the bytes, with a transport whose load() raises) must produce requests the server decodes to the sent values and decode the replies to the returned values. Held on everything explored; not a proof.",
    note="Trusted: zeep 4.3 (calibrated: its request must be read back by the reference decoder first), lxml parsing, pbt/ref_xml.py."),
 "C09": dict(
    design="DESIGN.md §3 C09",
    technique="property-based testing (Hypothesis); oracles: independent per-protocol fault decoders, documented HTTP status table, secret-token search in body and headers",
    text="Exploration: user functions (plain, or generators raising before the first yield over WSGI) raise built-in and generated Fault classes (incl. generated subclasses of the dedicated 413/404/405/401 errors) with generated codes (Client/Server plus look-alike and free first segments, 0-3 sub-codes), Unicode messages and nested detail dicts, or non-Fault exceptions whose message, args, __str__, __repr__, class name and a frame local carry secret tokens, under eight output protocols through the pipeline, WSGI and spyne's own SOAP client; the decoded fault must equal the raised one, the return value must be absent, the HTTP status must follow the documented table, and no token may occur in any encoding. Held on everything explored; not a proof.",
    note="Trusted: the fault decoders in pbt/props/c09.py, stdlib json / PyYAML / msgpack / lxml as parsers."),
 "C02": dict(
    design="DESIGN.md §3 C02",
    technique="property-based testing (Hypothesis) over generated programs x inputs x configurations; oracles: recording user function + independent reference dict codec over stdlib json / PyYAML / msgpack",
    text="Exploration: generated universes and wrapped (plus, with ignore_wrappers=True, bare) signatures with conformant boundary-biased values (integers up to 2^200 and on the int64/uint64 edges, 40-digit decimals, all Unicode planes, empty containers, None entries in sequences, multi-chunk byte values) are sent as JSON / YAML / MessagePack / msgpack-rpc documents built by an independent reference codec and third-party serialisers, for ignore_wrappers on/off, complex_as dict/list, polymorphic on/off (declared-class values), validator None/soft, msgpack str/bin keys; the json/yaml helpers of spyne.util.dictdoc are checked with the same reference mapping; recorded arguments and reference-decoded responses must equal what was sent/returned. Held on everything explored; not a proof.",
    note="Trusted: stdlib json, PyYAML, msgpack (calibrated per case by a round-trip), pbt/ref_dict.py."),
 "C01": dict(
    design="DESIGN.md §3 C01",
    technique="property-based testing (Hypothesis) over generated programs x inputs x configurations; oracles: recording user function + independent schema-driven reference XML codec + libxml2 validation of the request",
    text="Exploration: generated type universes (nested classes, inheritance, wrapped/unwrapped arrays, XML attributes, enums, facets, 1-3 namespaces), generated method signatures (wrapped/bare/out_bare, 0-4 args, 0-3 returns) and conformant boundary-biased values are sent as schema-valid requests written by an independent reference encoder (4 spelling variants) through XmlDocument/Soap11/Soap12 x validator None/soft/lxml; the recorded arguments and the reference-decoded response must equal what was sent/returned. Held on everything explored; not a proof.",
    note="Trusted: libxml2 validation, pbt/ref_xml.py + pbt/lex.py (independent codec), the published schema for element names/order (checked by C06/C07)."),
 "C08": dict(
    design="DESIGN.md §3 C08",
    technique="property-based testing (Hypothesis) + exhaustive enumeration; oracles: libxml2 simple-type validity, round-trip, independently computed denotation of generated XSD literals",
    text="Exploration: for 32 primitive types/customisations x 8 protocol leaf paths, boundary-biased generated values are printed, validated by libxml2 against the advertised xs: type and parsed back; generated XSD literals are parsed and compared with their independently computed denotation; all 1681 UTC offsets and all fixed-width integer bounds are enumerated exhaustively. Held on everything explored; not a proof.",
    note="Trusted: libxml2's simple-type validation (calibrated by selftest), Python's datetime/decimal arithmetic, the reference literal generators in pbt/lex.py."),
}

ALL = ["C%02d" % i for i in range(1, 19)]
NA_REASON = {}

def main():
    man = {
     "version": 1,
     "setup_cmd": "sh ./setup.sh",
     "hooks": {"guard": "SPYNE_VERIF", "enable": "no source hooks are needed: every observation point is reachable from outside (recording user functions, event listeners, start_response/wsgi.input wrappers, sys.settrace, strace); checks import /repo's working tree directly (pure Python, nothing to build)",
               "baseline_off_cmd": "cd /repo && env -u SPYNE_VERIF /venv/bin/python -m pytest -q -p no:cacheprovider --timeout=900 --continue-on-collection-errors",
               "source_commits": [], "add_only": True},
     "engines": [{"name": "pbt", "path": "pbt/", "serves_properties": sorted(CHECKS),
                  "kind_free_text": "Hypothesis-driven generated-input search with explicit oracles, 16-way sharded, seeded by VERIF_SEED; collect-then-shrink with root-cause signatures; exhaustive enumeration of finite sub-domains"}],
     "checks": [],
     "notes": "Generator dimensions added after three rounds of seeded changes (aliased object graphs, same-named classes in different namespaces, neighbour protocol instances and applications sharing classes, earlier calls on the same application or function handle, non-default protocol / decorator options, late-declared classes) are part of every tier; DESIGN.md 8.1 lists them per seed. Every check: ./check <id> --tier quick|thorough [--seed N]; exit 0 held / 1 VIOLATION / 2 harness error. known_findings.json lists genuine defects (known, excluded by exact signature) and repaired ones (fixed:, never suppressed). tools/baseline.py re-runs the repository suite against BASELINE.json.",
     "not_applicable": [],
    }
    for pid in ALL:
        if pid in CHECKS:
            c = CHECKS[pid]
            man["checks"].append({
                "property_id": pid,
                "quick_cmd": "./check %s --tier quick" % pid,
                "thorough_cmd": "./check %s --tier thorough" % pid,
                "evidence_file": "evidence/%s.json" % pid,
                "replay_cmd_template": "./check %s --replay {path}" % pid,
                "engine": "pbt",
                "level_claimed": {"category": "exploration", "text": c["text"], "design_ref": c["design"]},
                "level_note": c["note"],
                "technique": c["technique"],
            })
        else:
            man["not_applicable"].append({"property_id": pid, "reason": NA_REASON.get(pid, "check not built yet in this round (design in DESIGN.md §3); not claimed until its check is registered")})
    with open(os.path.join(HERE, "MANIFEST.json"), "w") as fp:
        json.dump(man, fp, indent=1)
        fp.write("\n")

if __name__ == "__main__":
    main()
