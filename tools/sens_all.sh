#!/bin/sh
# tools/sens_all.sh -- run every mutants/<cNN>_*.patch against the check of its property;
# writes mutants/RESULTS.txt (DETECTED / MISSED / PATCH-FAILED per patch)
cd "$(dirname "$0")/.."
: > mutants/RESULTS.txt
for p in mutants/*.patch; do
  b=$(basename $p); prop=$(echo $b | cut -c1-3 | tr c C)
  r=$(tools/sensitivity.sh $prop $p | head -1)
  echo "$r" | tee -a mutants/RESULTS.txt
done
