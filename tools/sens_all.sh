#!/bin/sh
# tools/sens_all.sh -- run every hand-written mutants/<cNN>_*.patch against the check of its
# property; writes mutants/RESULTS.txt (DETECTED / MISSED / PATCH-FAILED per patch).
# (reverse patches of the fix: commits are handled by tools/revert_all.sh)
cd "$(dirname "$0")/.."
: > mutants/RESULTS.txt
for p in mutants/*.patch; do
  b=$(basename $p); prop=$(echo $b | cut -c1-3 | tr c C)
  r=$(tools/sensitivity.sh $prop $p | head -1)
  echo "$r" | tee -a mutants/RESULTS.txt
done
