#!/bin/sh
# tools/revert_all.sh -- for every mutants/revert/<cNN>_<sha>.patch (the reverse of one fix: commit):
# re-find the repaired defect with the quick check of its property on a scratch copy, shrink,
# keep up to 3 small failing cases in corpus/<CNN>/, and log DETECTED / MISSED / PATCH-FAILED
# in mutants/REVERT_RESULTS.txt
cd "$(dirname "$0")/.."
: > mutants/REVERT_RESULTS.txt
for p in mutants/revert/*.patch; do
  b=$(basename $p .patch); prop=$(echo $b | cut -c1-3 | tr c C)
  r=$(tools/harvest.sh $prop $p)
  case "$r" in
    *PATCH-FAILED*) echo "PATCH-FAILED $b" ;;
    *rc=1*) echo "DETECTED $b ($r)" ;;
    *) echo "MISSED $b ($r)" ;;
  esac | tee -a mutants/REVERT_RESULTS.txt
done
