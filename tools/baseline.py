#!/venv/bin/python
"""Run the repository's pinned suite and compare with BASELINE.json's stable_pass list.
usage: tools/baseline.py [-n N]   (exit 0 iff every stable_pass test passed)"""
import json, os, subprocess, sys, tempfile
import xml.etree.ElementTree as ET

base = json.load(open("/root/.vp/BASELINE.json"))
n = sys.argv[2] if len(sys.argv) > 2 and sys.argv[1] == "-n" else "8"
repo = os.environ.get("SPYNE_UNDER_TEST", "/repo")
with tempfile.TemporaryDirectory() as d:
    out = os.path.join(d, "j.xml")
    env = dict(os.environ); env.pop("SPYNE_VERIF", None)
    cmd = ["/venv/bin/python", "-m", "pytest", "-q", "-p", "no:cacheprovider", "--timeout=900",
           "--continue-on-collection-errors", "--junitxml=" + out]
    if n != "0":
        cmd += ["-n", n]
    subprocess.run(cmd, cwd=repo, env=env, stdout=subprocess.DEVNULL, stderr=subprocess.DEVNULL)
    passed = set()
    for tc in ET.parse(out).getroot().iter("testcase"):
        if not any(c.tag in ("failure", "error", "skipped") for c in tc):
            passed.add("%s::%s" % (tc.get("classname"), tc.get("name")))
missing = [t for t in base["stable_pass"] if t not in passed]
print("stable_pass=%d passed_now=%d missing=%d" % (len(base["stable_pass"]), len(passed), len(missing)))
for m in missing[:40]:
    print("  NOT PASSING:", m)
sys.exit(1 if missing else 0)
