#!/bin/sh
# tools/sensitivity.sh <Cxx> <patch file> [extra env...]
# Applies a mutant patch to a scratch copy of /repo/spyne (outside /repo and /verif), runs the
# property's quick check against the copy, expects exit 1, removes the copy.
prop="$1"; patch="$(readlink -f "$2")"
d=$(mktemp -d /tmp/mut.XXXXXX)
cp -r /repo/spyne "$d/spyne"
(cd "$d" && patch -s -p1 < "$patch") || { echo "PATCH-FAILED $patch"; rm -rf "$d"; exit 2; }
cd "$(dirname "$0")/.."
SPYNE_UNDER_TEST="$d" VERIF_OUT_DIR="$d/out" ./check "$prop" --tier quick --no-shrink > "$d/out.log" 2>&1
rc=$?
n=$(grep -c '^VIOLATION' "$d/out.log")
if [ $rc -eq 1 ]; then echo "DETECTED $prop $(basename $patch) violations=$n"; else echo "MISSED $prop $(basename $patch) rc=$rc"; tail -3 "$d/out.log"; fi
rm -rf "$d"
