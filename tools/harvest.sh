#!/bin/sh
# tools/harvest.sh <Cxx> <reverse-fix patch> -- re-find a repaired defect on a scratch copy with the
# fix reverted, shrink, and keep up to 3 of the smallest failing cases in corpus/<Cxx>/ (the
# regression corpus every tier replays first)
prop="$1"; patch="$(readlink -f "$2")"
d=$(mktemp -d /tmp/hv.XXXXXX)
cp -r /repo/spyne "$d/spyne"
(cd "$d" && patch -s -p1 < "$patch") || { echo "PATCH-FAILED $patch"; rm -rf "$d"; exit 2; }
cd "$(dirname "$0")/.."
SPYNE_UNDER_TEST="$d" VERIF_OUT_DIR="$d/out" ./check "$prop" --tier quick > "$d/out.log" 2>&1
rc=$?
mkdir -p corpus/$prop
n=0
if [ -d "$d/out/replays/$prop" ]; then
  for f in $(ls -Sr "$d/out/replays/$prop" | head -3); do
    if [ $(stat -c %s "$d/out/replays/$prop/$f") -lt 60000 ]; then cp "$d/out/replays/$prop/$f" corpus/$prop/; n=$((n+1)); fi
  done
fi
echo "harvest $prop $(basename $patch) rc=$rc kept=$n"
rm -rf "$d"
