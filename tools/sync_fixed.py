#!/venv/bin/python
"""Rewrite the 'fixed' list of known_findings.json from /repo's fix: commits."""
import json, subprocess, os
HERE = os.path.dirname(os.path.dirname(os.path.abspath(__file__)))
MAP = [  # (substring of the commit subject, property)
 ("negative UTC offsets", "C08"), ("durations with a microsecond", "C08"),
 ("fractional seconds of a duration", "C08"), ("unsigned fixed-width", "C05"),
 ("signed fixed-width", "C08"), ("infinite and NaN doubles", "C08"),
 ("hex-encoded binary", "C08"), ("24:00:00", "C08"), ("non-duration string", "C08"),
 ("SOAP output ignored DateTime", "C08"), ("bare and out_bare", "C01"),
 ("attributes of a child element", "C01"), ("NaN double raised", "C10"),
 ("empty string in a non-nillable", "C01"),
 ("MessagePack request with str map keys", "C02"), ("null in place of a multi-valued", "C02"),
 ("None return value of complex type", "C02"), ("ModelBase.to_bytes", "C02"),
 ("null member of complex type", "C02"), ("members of a class used more than once", "C03"),
 ("strict_arrays rejected arrays", "C03"), ("SOAP 1.2 fault whose detail dict", "C09"), ("Soap12 client could only read faults", "C09"),
 ("Mandatory(SomeArray) made the members", "C15"), ("adding a field to a subclass also added it", "C15"),
 ("customization of a number type silently removed", "C15"),
 ("SOAP request with an empty Body", "C10"), ("empty SOAP request or one not in the announced charset", "C10"),
 ("not a member of an Enum escaped", "C10"), ("most YAML syntax errors escaped", "C10"),
 ("deeply nested or undecodable JSON", "C10"), ("msgpack documents with trailing data", "C10"),
 ("range validation of NaN or of a non-numeric", "C10"), ("request without an argument document", "C10"),
 ("wrapper element carries xsi:nil", "C10"), ("msgpack-rpc document with trailing data", "C10"),
 ("number where uuid text is expected", "C10"), ("MessagePack method name that is not valid UTF-8", "C10"),
 ("closed the request context before the response body", "C13"), ("chunked=False) raised TypeError", "C13"),
 ("empty or immediately failing generator result", "C13"), ("request size limit was only enforced", "C13"),
 ("WSDL error responses had a str body", "C13"),
 ("xsi:type could substitute a value of any registered class", "C04"),
 ("xsi:type derivation check accepted", "C04"),
 ("xsi:type could swap one array type for another", "C04"),
 ("repeated XML members were appended to the shared default list", "C01"),
 ("auxiliary service before the primary one of the same method name raised TypeError", "C11"),
 ("second method answering to the same public name of a service was dropped silently", "C11"),
 ("HttpPattern without an address matched its method name as a regular expression", "C11"),
 ("NullServer never closed the context of a call that ended in an error", "C14"),
 ("NullServer call to an unknown method left its announced context open", "C14"),
 ("NullServer(ostr=True) fired no method_exception_object", "C14"),
 ("cannot be serialized was answered over WSGI with 200 OK", "C14"),
 ("attribute cache published a half-built attribute dict", "C12"),
 ("answered with another request's schema error", "C12"),
 ("null entry in a list of objects was written as an empty object", "C02"),
 ("dict protocols handed a float to functions declaring an Integer", "C04"),
 ("bare methods over the dict protocols crashed on a simple-typed argument", "C10"),
 ("Date type with a custom format raised AttributeError", "C10"),
 ("duration too large for timedelta escaped", "C10"),
 ("fault message quoting request text that XML cannot carry crashed", "C10"),
 ("msgpack-rpc method name that is not valid UTF-8 escaped", "C10"),
 ("MessagePack bytes that are not valid text for a Unicode member escaped", "C10"),
 ("processing instruction inside a complex element crashed deserialization", "C10"),
 ("multipart/related SOAP request naming an unknown charset escaped", "C10"),
 ("JsonDocument's soft validation of date/time members used the offending value", "C10"),
 ("Decimal with total_digits rejected its own text", "C08"),
 ("ISO date with an offset and an impossible month or day escaped", "C10"),
 ("MessagePack wrapper key that is not valid UTF-8 escaped", "C10"),
 ("date with a time zone suffix and an impossible day or month", "C10"),
 ("SOAP multiref href pointing to no element escaped as KeyError", "C10"),
 ("SOAP multiref href to an enclosing element recursed", "C10"),
 ("SOAP multiref href to an ancestor element still recursed", "C10"),
 ("HttpRpc array index with more digits than int() reads", "C10"),
 ("duration pattern accepted any character as the decimal point", "C10"),
 ("JSON request declaring an unknown charset escaped", "C10"),
 ("attachment lacking Content-ID raised AttributeError", "C10"),
 ("multipart/related SOAP requests with an empty body or a non-ascii root part", "C10"),
 ("YAML request declaring an unknown charset escaped", "C10"),
 ("does not match the custom format of a DateTime type", "C10"),
 ("document nodes of the wrong kind escaped", "C04"), ("MessagePack handed booleans, maps and lists", "C04"),
 ("malformed base64 or hex text raised binascii.Error", "C10"),
 ("numbers 0 and 1 were accepted for Boolean", "C04"), ("msgpack-rpc message whose type field is a sequence", "C10"),
 ("text or numbers in a raw (unencoded) binary member", "C04"),
 ("Ignored return value of a method with several", "C18"), ("NullServer misaligned the members", "C18"),
 ("bare methods lost their argument in dict documents", "C18"),
 ("unexpanded entity reference in a request", "C17"), ("SOAP-with-attachments requests were parsed", "C17"),
 ("Soap12 could not serialize a schema validation fault", "C10"),
 ("tens of thousands of attributes", "C17"),
 ("xsi:type values whose namespace prefix is not bound", "C16"),
 ("SOAP output dropped the namespace declaration", "C16"),
 ("order of schema types and xs:import", "C07"), ("WSDL header and fault message references", "C07"),
 ("every operation was put into the last wsdl:portType", "C07"),
 ("global element of a header or fault class", "C07"),
 ("out-of-range date/time fields", "C10"), ("occurrence limits of multi-valued members", "C05"),
 ("explicit null for a non-nillable multi-valued", "C05"), ("integer text like", "C05"),
 ("double text like", "C05"), ("decimal text like", "C05"), ("silently read as boolean False", "C05"),
 ("dates without zero padding", "C05"), ("durations followed by garbage", "C05"),
 ("soft validation skipped XML attributes", "C05"), ('xsi:nil="false" was read as null', "C05"), ("JSON soft validation rejected null", "C02"),
]
kf = json.load(open(os.path.join(HERE, "known_findings.json")))
log = subprocess.check_output(["git", "-C", "/repo", "log", "--reverse", "--format=%h\t%s"]).decode().splitlines()
out = []
for l in log:
    h, s = l.split("\t", 1)
    if not s.startswith("fix:"):
        continue
    props = [p for k, p in MAP if k in s]
    if not props:
        raise SystemExit("unmapped fix commit: " + s)
    out.append("fixed: property=%s %s %s" % (props[0], h, s[5:]))
kf["fixed"] = out
json.dump(kf, open(os.path.join(HERE, "known_findings.json"), "w"), indent=1)
print(len(out), "fixed entries")
