#!/venv/bin/python
"""tools/seed_eval.py <property> <dir with patch.diff demo.py meta.json> [<name>] [--checks C01,C08]
Verifies a seeded defect (demo fails with it / passes without it, baseline suite still passes)
on a scratch copy of /repo, runs the property's quick check against the copy, and files the
change under /verif/seeded/<name>/ with the outcome in meta.json."""
import json, os, shutil, subprocess, sys, tempfile, time

HERE = os.path.dirname(os.path.dirname(os.path.abspath(__file__)))


def sh(cmd, **kw):
    return subprocess.run(cmd, shell=isinstance(cmd, str), capture_output=True, text=True, **kw)


def main():
    args = [a for a in sys.argv[1:] if not a.startswith("--")]
    prop, src = args[0], os.path.abspath(args[1])
    name = args[2] if len(args) > 2 else "%s-%s" % (prop, os.path.basename(src.rstrip("/")))
    checks = [prop]
    for a in sys.argv[1:]:
        if a.startswith("--checks="):
            checks = a.split("=", 1)[1].split(",")
    nproc = os.environ.get("VERIF_NPROC", "8")
    d = tempfile.mkdtemp(prefix="se_")
    res = {"property": prop, "name": name}
    try:
        sh("cd /repo && git archive HEAD | tar -x -C %s" % d)
        ap = sh(["git", "apply", "--directory=.", os.path.join(src, "patch.diff")], cwd=d)
        if ap.returncode != 0:
            ap = sh("patch -s -p1 < %s" % os.path.join(src, "patch.diff"), cwd=d)
        res["patch_applies"] = ap.returncode == 0
        if not res["patch_applies"]:
            res["error"] = (ap.stderr or ap.stdout)[-500:]
            print(json.dumps(res)); return 1
        env = dict(os.environ, PYTHONWARNINGS="ignore", PYTHONDONTWRITEBYTECODE="1")
        with_ = sh(["/venv/bin/python", os.path.join(src, "demo.py")], env=dict(env, SPYNE_PATH=d), timeout=600)
        without = sh(["/venv/bin/python", os.path.join(src, "demo.py")], env=dict(env, SPYNE_PATH="/repo"), timeout=600)
        res["demo_with_patch_rc"] = with_.returncode
        res["demo_without_patch_rc"] = without.returncode
        res["demo_with_patch_tail"] = (with_.stdout or with_.stderr)[-300:]
        b = sh([os.path.join(HERE, "tools", "baseline.py"), "-n", "6"], env=dict(env, SPYNE_UNDER_TEST=d), timeout=1800)
        res["baseline_passes"] = b.returncode == 0
        res["baseline_line"] = b.stdout.strip().splitlines()[0] if b.stdout.strip() else b.stderr[-200:]
        res["checks"] = {}
        for c in checks:
            out = tempfile.mkdtemp(prefix="seo_")
            t0 = time.time()
            r = sh([os.path.join(HERE, "check"), c, "--tier", "quick", "--no-shrink"],
                   env=dict(env, SPYNE_UNDER_TEST=d, VERIF_OUT_DIR=out, VERIF_NPROC=nproc), timeout=3600, cwd=HERE)
            sigs = []
            for line in r.stderr.splitlines():
                if line.strip().startswith("signature:"):
                    sigs.append(line.split("signature:", 1)[1].strip())
            res["checks"][c] = {"rc": r.returncode, "detected": r.returncode == 1,
                                "violations": sum(1 for l in r.stdout.splitlines() if l.startswith("VIOLATION")),
                                "signatures": sigs[:12], "wall_s": round(time.time() - t0, 1),
                                "summary": [l for l in r.stdout.splitlines() if " tier=" in l][-1:]}
            shutil.rmtree(out, ignore_errors=True)
        if not os.environ.get("SEED_EVAL_NOWRITE"):      # (re-evaluations at other seeds do not file)
            dst = os.path.join(HERE, "seeded", name)
            os.makedirs(dst, exist_ok=True)
            for f in ("patch.diff", "demo.py"):
                shutil.copy(os.path.join(src, f), os.path.join(dst, f))
            meta = {}
            try:
                meta = json.load(open(os.path.join(src, "meta.json")))
            except Exception:
                pass
            meta["verified_here"] = res
            meta["repo_head"] = sh("git -C /repo rev-parse --short HEAD").stdout.strip()
            json.dump(meta, open(os.path.join(dst, "meta.json"), "w"), indent=1)
        ok = res["demo_with_patch_rc"] != 0 and res["demo_without_patch_rc"] == 0 and res["baseline_passes"]
        print("%s valid=%s %s" % (name, ok, " ".join("%s:%s" % (c, "DETECTED" if v["detected"] else "MISSED(rc=%s)" % v["rc"])
                                                      for c, v in res["checks"].items())))
        return 0
    finally:
        shutil.rmtree(d, ignore_errors=True)


if __name__ == "__main__":
    sys.exit(main())
