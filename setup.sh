#!/bin/sh
# offline setup: hypothesis into /venv if missing; atheris into /verif/.deps
here="$(cd "$(dirname "$0")" && pwd)"
PY=/venv/bin/python
WH=/opt/veriftools/wheels
"$PY" -c "import hypothesis" 2>/dev/null || \
  /venv/bin/pip install -q --no-index --find-links "$WH" hypothesis || exit 1
if ! PYTHONPATH="$here/.deps" "$PY" -c "import atheris" 2>/dev/null; then
  /venv/bin/pip install -q --no-index --find-links "$WH" --target "$here/.deps" atheris \
    || echo "setup: atheris unavailable (fuzz stages will be skipped)"
fi
mkdir -p "$here/evidence"
PYTHONPATH="$here" PYTHONHASHSEED=0 "$PY" -m pbt.runner selftest || exit 1
echo "setup ok"
