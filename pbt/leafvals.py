"""Boundary-biased Hypothesis strategies for native leaf values (imports no spyne)."""
import datetime as dtm
import decimal

from hypothesis import strategies as st

from . import lex

D = decimal.Decimal

INT_EDGES = [0, 1, -1, 2, 9, 10, 11, 99, 100, 127, 128, -128, -129, 255, 256, 32767, 32768,
             -32768, -32769, 65535, 65536, 2 ** 31 - 1, 2 ** 31, -2 ** 31, -2 ** 31 - 1,
             2 ** 32 - 1, 2 ** 32, 2 ** 53, 2 ** 53 + 1, -2 ** 53 - 1, 2 ** 63 - 1, 2 ** 63,
             -2 ** 63, -2 ** 63 - 1, 2 ** 64 - 1, 2 ** 64, 10 ** 18, 10 ** 19, 2 ** 200,
             -2 ** 200, 10 ** 40]


WIRE_EDGES = [2 ** 63 - 1, 2 ** 63, -2 ** 63, -2 ** 63 - 1, -2 ** 63 - 2, 2 ** 64 - 1, 2 ** 64, 2 ** 64 + 1,
              -2 ** 64 + 1, -2 ** 64, -2 ** 64 - 1, 2 ** 53 + 1, -2 ** 53 - 1, -2 ** 63 - 2 ** 40]


def ints(lo=None, hi=None):
    edges = [x for x in INT_EDGES if (lo is None or x >= lo) and (hi is None or x <= hi)]
    if lo is not None:
        edges += [lo, lo + 1]
    if hi is not None:
        edges += [hi, hi - 1]
    edges = [x for x in edges if (lo is None or x >= lo) and (hi is None or x <= hi)]
    # where the number formats of the wire codecs change representation (msgpack int64/uint64,
    # IEEE doubles in JSON readers)
    wire = [x for x in WIRE_EDGES if (lo is None or x >= lo) and (hi is None or x <= hi)]
    alts = [st.integers(min_value=lo, max_value=hi), st.sampled_from(edges)]
    if wire:
        alts.append(st.sampled_from(wire))
    return st.one_of(*alts)


def decimals():
    fin = st.decimals(allow_nan=False, allow_infinity=False)
    built = st.tuples(st.integers(-10 ** 40, 10 ** 40), st.integers(-30, 30)).map(
        lambda t: D(t[0]).scaleb(t[1]))
    edges = st.sampled_from([D("0"), D("-0"), D("1E+10"), D("1E-10"), D("2.8E+10"),
                             D("0.1"), D("-0.5"), D("1.000"), D("123456789012345678901234567890.123456789"),
                             D("1E+1"), D("0E-7"), D("1e-7"), D("9" * 40)])
    return st.one_of(fin, built, edges)


def doubles(width=64, special=True):
    base = st.floats(allow_nan=False, allow_infinity=False, width=width)
    edges = [0.0, -0.0, 1.0, -1.0, 0.1, 1e16, 1e-5, 1e22, 1.5e300, 5e-324, 2.2250738585072014e-308,
             1.7976931348623157e308, 123456789.12345678, 1e-7, 100.0]
    if width == 32:
        edges = [0.0, -0.0, 1.0, 0.5, 1.401298464324817e-45, 3.4028234663852886e+38, 16777216.0]
    parts = [base, st.sampled_from(edges)]
    if special:
        parts.append(st.sampled_from([float("inf"), float("-inf"), float("nan")]))
    return st.one_of(*parts)


def microseconds():
    """every digit-length class of the microsecond field"""
    return st.one_of(st.just(0), st.integers(1, 9), st.integers(10, 99), st.integers(100, 999),
                     st.integers(1000, 9999), st.integers(10000, 99999),
                     st.integers(100000, 999999),
                     st.sampled_from([1, 5, 10, 500, 5000, 50000, 99999, 100000, 500000,
                                      999999, 123456]))


def offsets_min():
    return st.one_of(st.integers(-840, 840),
                     st.sampled_from([0, -840, 840, -210, 345, -1, 1, -59, 59, -61, 61, -30, 30,
                                      -289, 330, 765]))


def naive_datetimes(min_year=1, max_year=9999):
    def build(t):
        d, h, mi, s, us = t
        return dtm.datetime(d.year, d.month, d.day, h, mi, s, us)
    return st.tuples(lex.dates(min_year, max_year), st.integers(0, 23), st.integers(0, 59),
                     st.integers(0, 59), microseconds()).map(build)


def aware_datetimes(min_year=2, max_year=9998):
    # years 1 and 9999 are kept out of the aware domain: an offset could push the UTC
    # instant outside what datetime arithmetic can represent.
    return st.tuples(naive_datetimes(min_year, max_year), offsets_min()).map(
        lambda t: t[0].replace(tzinfo=dtm.timezone(dtm.timedelta(minutes=t[1]))))


def datetimes():
    return st.one_of(naive_datetimes(), aware_datetimes())


def times():
    return st.tuples(st.integers(0, 23), st.integers(0, 59), st.integers(0, 59),
                     microseconds()).map(lambda t: dtm.time(*t))


def durations():
    def build(t):
        neg, d, s, us = t
        v = dtm.timedelta(days=d, seconds=s, microseconds=us)
        return -v if neg else v
    days = st.one_of(st.just(0), st.integers(0, 400), st.integers(0, 10 ** 6))
    secs = st.one_of(st.just(0), st.integers(0, 86399), st.sampled_from([1, 59, 60, 61, 3599,
                                                                          3600, 3661, 86399]))
    return st.tuples(st.booleans(), days, secs, microseconds()).map(build)


def binaries(max_size=64):
    return st.one_of(st.binary(max_size=max_size),
                     st.sampled_from([b"", b"\x00", b"\xff\xfe\xfd", b"a", b"ab", b"abc",
                                      b"\xfb\xff\xbe", bytes(range(256))]))


def texts(min_size=0, max_size=20):
    return lex.xml_text(min_size, max_size)


def uris():
    return st.sampled_from(["http://example.com/", "http://example.com/a?b=c&d=e#f",
                            "urn:x:y", "mailto:a@b.c", "/rel/path", "x", "http://a/%20b",
                            "http://ıö.example/é"])
