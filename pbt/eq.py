"""Per-type equality, with exactly the identifications the properties allow."""
import datetime as dtm
import decimal
import math
import uuid

UTC0 = dtm.timedelta(0)


def chunks_of(v):
    """bytes -> the chunk sequence handed to spyne.  ByteArray's native value is a sequence
    of byte chunks of any sizes; the split is a pure function of the value so that a case
    stays plain data: one third single-chunk lists, the rest 2+ chunks of sizes 1..4
    (list or tuple)."""
    if len(v) < 2 or v[-1] % 3 == 0:
        return [v]
    k = 1 + v[0] % 4
    out, i = [], 0
    while i < len(v):
        out.append(v[i:i + k])
        i += k
        k = k % 4 + 1
    return tuple(out) if v[-1] % 3 == 2 else out


def bytes_of(v):
    """spyne's native ByteArray value is a sequence of byte chunks."""
    if v is None:
        return None
    if isinstance(v, (bytes, bytearray, memoryview)):
        return bytes(v)
    if isinstance(v, (list, tuple)) or hasattr(v, "__iter__"):
        parts = list(v)
        if all(isinstance(p, (bytes, bytearray, memoryview)) for p in parts):
            return b"".join(bytes(p) for p in parts)
    return v


def dt_eq(got, exp, naive_as_utc_ok=True):
    """instant plus UTC offset for aware values; wall time for naive ones.  A naive
    expected value that comes back UTC-aware with the same wall time is accepted (the
    DateTime docstring promises LOCAL_TZ=utc for naive inputs)."""
    if not isinstance(got, dtm.datetime) or not isinstance(exp, dtm.datetime):
        return False
    eo, go = exp.utcoffset(), got.utcoffset()
    if eo is None:
        if go is None:
            return got == exp
        return naive_as_utc_ok and go == UTC0 and got.replace(tzinfo=None) == exp
    if go is None:
        return False
    return got == exp and go == eo


def leaf_eq(kind, got, exp):
    """kind: int dec double bool text dt date time td bytes uuid"""
    if exp is None:
        return got is None
    if got is None:
        return False
    if kind == "int":
        return isinstance(got, int) and not isinstance(got, bool) and got == exp
    if kind == "dec":
        return isinstance(got, (decimal.Decimal, int)) and not isinstance(got, bool) \
            and decimal.Decimal(got) == exp
    if kind == "double":
        if not isinstance(got, (float, int)) or isinstance(got, bool):
            return False
        if isinstance(exp, float) and math.isnan(exp):
            return isinstance(got, float) and math.isnan(got)
        return float(got) == float(exp)
    if kind == "bool":
        return isinstance(got, bool) and got == exp
    if kind == "text":
        return isinstance(got, str) and got == exp
    if kind == "dt":
        return dt_eq(got, exp)
    if kind == "date":
        return type(got) is dtm.date and got == exp
    if kind == "time":
        return isinstance(got, dtm.time) and got == exp
    if kind == "td":
        return isinstance(got, dtm.timedelta) and got == exp
    if kind == "bytes":
        g = bytes_of(got)
        return isinstance(g, bytes) and g == exp
    if kind == "uuid":
        return isinstance(got, uuid.UUID) and got == exp
    raise ValueError(kind)
