"""C13 — WSGI response protocol and request-size limit.

case = (protocol pair, request outcome, CONTENT_LENGTH spelling, extra bytes behind the
        document on the input stream, max_content_length relative to the document length n,
        block_length, chunked, client abort point k, wrapped in wsgiref.validate or not)

One case = one call of a fresh WsgiApplication.  The harness owns three observation points,
all writing into ONE ordered event log:

  * a recording start_response / write,
  * the consumer loop (`returned`, `chunk`, `exhausted`, `close-called`, `close-returned`),
  * listeners for `method_context_closed` (application) and `wsgi_close` (transport),

plus a counting `wsgi.input` and a user function that is a generated closure recording every
invocation.

Rules (one signature each).  `<path>` is a coarse label of the reply path the *request* calls
for, computed from the case alone (never from what spyne did): success | stream (generator /
user-set ctx.out_string) | fault (every error answer, RequestTooLong and unusable
CONTENT_LENGTH included) | wsdl | wsdl-error (?wsdl with an injected failure of
build_interface_document, the documented `wsdl_exception` path).  `<Exc>` is the exception
class, except that exceptions raised by the generated user code are bucketed as user-Fault /
user-exception (their class is a parameter of the case, not a root cause).

  C13|escaped|<Exc>|<file:function>|<path>      exception out of the WSGI callable
  C13|escaped-during-body|<Exc>|<where>|<path>  exception out of next()/close() of the iterable
  C13|wsgiref-validate|<function>|<path>        wsgiref.validate objects to the *response*
  C13|start_response-count|<path>               != 1 call
  C13|start_response-after-chunk|<path>
  C13|start_response-args|<what>|<path>         status line / header list / str-ness
  C13|iterable-type|<path>                      returns None / str / bytes / non-iterable
  C13|chunk-not-bytes|<path>
  C13|content-length-mismatch|<path>            header value != sum(len(chunk))
  C13|closed-before-body|<path>|chunked=<b>     method_context_closed/wsgi_close too early
  C13|closed-count!=1|<path>                    method_context_closed fired 0 or >1 times
  C13|wsgi_close-count!=1|<path>                (rpc paths only; it is documented for them)
  C13|too-long-not-413|in=<doc|httprpc>         declared length > limit not answered with the
                                                RequestTooLong fault
  C13|user-code-ran-on-too-long|in=<doc|httprpc>
  C13|refused-within-limit|<path>               declared length <= limit answered RequestTooLong
  C13|read-beyond-limit                         more than max_content_length bytes returned by read()
  C13|read-beyond-content-length                more than CONTENT_LENGTH bytes returned by read()
  C13|unbounded-read                            read()/read(-1)/readline()/iteration of wsgi.input
"""
import io
import itertools
import json
import os
import re
import sys
import traceback
import wsgiref.validate
from urllib.parse import quote
from xml.sax.saxutils import escape

from hypothesis import strategies as st

from .. import env  # noqa: F401  (path set-up, logging off)
from .. import findings as F

PROPERTY = "C13"
RULE = ("cases = (protocol pair in {XmlDocument, Soap11, JsonDocument, HttpRpc-GET+Json, "
        "HttpRpc-GET+Xml}, request outcome in {primitive/complex/void success, Iterable generator "
        "(0..n items, raising before/after the first item), user-set ctx.out_string list/generator "
        "of m chunks, 8 Fault classes, 5 non-Fault exceptions, unserialisable return, soft "
        "validation error, unknown method, malformed body, ?wsdl, ?wsdl with an injected failure "
        "of WSDL generation}, CONTENT_LENGTH in {absent, '', 0, -1, n-d, cut inside a UTF-8 "
        "sequence, n, n with d extra bytes behind the document, n+d, limit+d, non-numeric}, "
        "max_content_length in {0, 1, n-d, n, n+d, 2MiB}, block_length, chunked, abort after k "
        "chunks, wsgiref.validate on/off); grids over the classes are enumerated completely, "
        "Hypothesis draws argument/return values, sizes, d, k on top. One fresh application per "
        "case; oracle = recording start_response + counting wsgi.input + one event log ordering "
        "chunk hand-over against method_context_closed/wsgi_close + recording user closure. "
        "Non-trivial = CONTENT_LENGTH != n, or |limit-n| <= 1, or abort before the last chunk, or "
        "generator/streamed result, or error outcome; distinct = (outcome, protocol, "
        "content-length class, limit relation, block class, chunked, abort class, validated)")
ASSUMPTIONS = [
    "the length of a request body is what CONTENT_LENGTH declares when it is a decimal number; "
    "absent and '' are 'unspecified' (PEP 3333 allows both) and only the generic rules apply",
    "a SOAP 1.1 out-protocol answers every fault, RequestTooLong included, with HTTP 500 "
    "(SOAP 1.1 section 6.2); for every other protocol the refusal must be HTTP 413",
    "HttpRpc is driven with GET query strings only (werkzeug is not installed, so the form "
    "parser behind POST cannot run)",
    "wsgiref.validate is the reference reading of PEP 3333 for status/header syntax",
    "a user function assigning ctx.out_string (documented override) is the multi-chunk source; "
    "the document protocols themselves always produce one chunk",
    "the `wsdl_exception` path is reached by fault injection (build_interface_document replaced "
    "on the instance); its findings carry the path label wsdl-error",
    "when an exception escapes the callable only the escape is reported for that case (a missing "
    "start_response / unclosed context is its consequence); the size-limit rules still apply",
]
EXHAUSTIVE = {
    "quick": ["grid A (request side): 5 protocol pairs x all outcome classes x 12 CONTENT_LENGTH "
              "classes {absent, '', 0, n-1, cut inside a UTF-8 sequence, n, n + 5 or 10000 bytes "
              "behind the document, n+1, limit+1, non-numeric} x max_content_length {0, 1, n-1, n, "
              "n+1, 2MiB} x block_length {1,7,8192} x chunked {T,F}",
              "grid B (response side): 5 protocol pairs x all outcome classes x chunked {T,F} x "
              "abort k in {0,1,2,3} x CONTENT_LENGTH {n, absent, limit+1} x limit {n, 2MiB}",
              "grid C: 5 protocol pairs x all outcome classes x chunked {T,F} x abort {none,0,1} "
              "x {within limit, too long} under wsgiref.validate.validator"],
}
EXHAUSTIVE["thorough"] = EXHAUSTIVE["quick"]
MAXTASKSPERCHILD = 8
MIB2 = 2 * 1024 * 1024

PROTS = ("xml", "soap11", "json", "http-json", "http-xml")
SOAP_ENV = "http://schemas.xmlsoap.org/soap/envelope/"

FAULTS = ("Client.Custom", "Client", "Server", "Server.Custom", "Other", "NotFound",
          "NotAllowed", "Creds", "Validation")
EXCS = ("KeyError", "ValueError", "ZeroDivisionError", "RuntimeError-nonascii", "AssertionError")

_uniq = itertools.count(1)


class HarnessError(Exception):
    pass


# ---------------------------------------------------------------------------------- domain
def is_doc(prot):
    return not prot.startswith("http-")


def grid_outcomes(prot):
    """the outcome classes enumerated by the grids (pure data)"""
    out = [
        {"kind": "ok-prim", "ret": "héllo wörld"},
        {"kind": "ok-complex", "a": 7, "b": "bé", "c": ["x", "y"]},
        {"kind": "ok-void"},
        {"kind": "stream-gen", "items": ["a", "b", "c"], "raise_at": None, "exc": None},
        {"kind": "stream-gen", "items": ["a"], "raise_at": None, "exc": None},
        {"kind": "stream-gen", "items": [], "raise_at": None, "exc": None},
        {"kind": "stream-gen", "items": ["a", "b"], "raise_at": 0, "exc": "Client.Custom"},
        {"kind": "stream-gen", "items": ["a", "b"], "raise_at": 1, "exc": "Client.Custom"},
        {"kind": "stream-gen", "items": ["a", "b"], "raise_at": 0, "exc": "KeyError"},
        {"kind": "stream-gen", "items": ["a", "b"], "raise_at": 1, "exc": "KeyError"},
        {"kind": "stream-raw", "chunks": ["ab", "cde", "f"], "as": "list"},
        {"kind": "stream-raw", "chunks": ["ab", "cde", "f"], "as": "gen"},
        {"kind": "stream-raw", "chunks": [], "as": "gen"},
        {"kind": "stream-raw", "chunks": ["p", "q", "", "r", "st"], "as": "tuple"},
    ]
    out += [{"kind": "fault", "cls": c} for c in ("Client.Custom", "Server", "NotFound")]
    out += [{"kind": "exception", "cls": "KeyError"}]
    out += [{"kind": "unserializable"}, {"kind": "validation"}, {"kind": "unknown-method"}]
    if is_doc(prot):
        out.append({"kind": "malformed"})
    out.append({"kind": "wsdl"})
    # a listener on the documented `wsdl` event edits the document before it is sent
    out.append({"kind": "wsdl", "edit": "append"})
    out.append({"kind": "wsdl", "edit": "replace"})
    # ... differently on every request, the judged request being the SECOND ?wsdl of the instance
    out.append({"kind": "wsdl", "edit": "vary"})
    out.append({"kind": "wsdl-error"})      # ?wsdl with an injected failure of WSDL generation
    return out


def more_outcomes(prot):
    """thorough tier: the remaining fault/exception classes (still enumerated)"""
    out = [{"kind": "fault", "cls": c} for c in FAULTS
           if c not in ("Client.Custom", "Server", "NotFound")]
    out += [{"kind": "exception", "cls": c} for c in EXCS if c != "KeyError"]
    out += [{"kind": "stream-raw", "chunks": ["", "ab", "", "c"], "as": "tuple"},
            {"kind": "stream-raw", "chunks": ["x"], "as": "list"}]
    return out


CL_GRID = [
    {"kind": "absent"}, {"kind": "empty"}, {"kind": "zero"},
    {"kind": "lt", "d": 1}, {"kind": "cut-in-char"}, {"kind": "eq"},
    {"kind": "eq", "junk": 5}, {"kind": "eq", "junk": 10000},
    {"kind": "gt", "d": 1}, {"kind": "gt-limit", "d": 1},
    {"kind": "bad", "text": "abc"}, {"kind": "bad", "text": "1\xb2"}, {"kind": "bad", "text": "9" * 4000},
]
LIMIT_GRID = [{"kind": "0"}, {"kind": "1"}, {"kind": "n-", "d": 1}, {"kind": "n"},
              {"kind": "n+", "d": 1}, {"kind": "2MiB"}]


def _case(prot, outcome, cl, limit, block, chunked, abort=None, validate=False, arg="héllo",
          hb=0):
    c = {"prot": prot, "outcome": outcome, "arg": arg,
         "cl": {k: v for k, v in cl.items() if k != "junk"}, "junk": cl.get("junk", 0),
         "limit": limit, "block": block, "chunked": chunked, "abort": abort,
         "validate": validate}
    if not is_doc(prot):
        c["hb"] = hb        # HttpRpc GET: length of the (ignored) request body
    return c


def grid_a(shard, tier):
    prot = shard["prot"]
    outs = grid_outcomes(prot) + (more_outcomes(prot) if tier == "thorough" else [])
    for o in outs:
        for cl in CL_GRID:
            for lim in LIMIT_GRID:
                yield _case(prot, o, cl, lim, shard["block"], shard["chunked"], hb=10)


def grid_b(shard, tier):
    prot = shard["prot"]
    outs = grid_outcomes(prot) + (more_outcomes(prot) if tier == "thorough" else [])
    ks = (0, 1, 2, 3) if tier == "quick" else (0, 1, 2, 3, 4, 5)
    for o in outs:
        for k in ks:
            for cl in ({"kind": "eq"}, {"kind": "absent"}, {"kind": "gt-limit", "d": 1}):
                for lim in ({"kind": "n"}, {"kind": "2MiB"}):
                    yield _case(prot, o, cl, lim, 8192, shard["chunked"], abort=k, hb=10)


def grid_c(shard, tier):
    prot = shard["prot"]
    outs = grid_outcomes(prot) + (more_outcomes(prot) if tier == "thorough" else [])
    for o in outs:
        for k in (None, 0, 1):
            for cl, lim in (({"kind": "eq"}, {"kind": "2MiB"}),
                            ({"kind": "eq"}, {"kind": "n"}),
                            ({"kind": "absent"}, {"kind": "2MiB"}),
                            ({"kind": "eq"}, {"kind": "n-", "d": 1}),
                            ({"kind": "gt-limit", "d": 1}, {"kind": "2MiB"})):
                yield _case(prot, o, cl, lim, 7, shard["chunked"], abort=k, validate=True,
                            hb=10)


# XML-safe, JSON-safe, URL-quotable text
_CHARS = st.characters(blacklist_categories=("Cs", "Cc"),
                       blacklist_characters="￾￿")
_TXT = st.text(_CHARS, max_size=30)
_BIG = st.builds(lambda c, k: c * k, st.sampled_from(["a", "é", "<", "€", "&"]),
                 st.integers(2000, 12000))
_TXTB = st.one_of(_TXT, _TXT, _TXT, _BIG)


def hyp_cases(tier):
    @st.composite
    def outcome(draw, prot):
        kinds = ["ok-prim", "ok-complex", "ok-void", "stream-gen", "stream-gen", "stream-raw",
                 "stream-raw", "fault", "exception", "unserializable", "validation",
                 "unknown-method", "wsdl", "wsdl-error"] + (["malformed"] if is_doc(prot) else [])
        k = draw(st.sampled_from(kinds))
        if k == "wsdl":
            e = draw(st.sampled_from([None, "append", "replace", "vary"]))
            return {"kind": k, "edit": e} if e else {"kind": k}
        if k == "ok-prim":
            return {"kind": k, "ret": draw(_TXTB)}
        if k == "ok-complex":
            return {"kind": k, "a": draw(st.integers(-10 ** 12, 10 ** 12)), "b": draw(_TXTB),
                    "c": draw(st.lists(_TXT, max_size=5))}
        if k == "stream-gen":
            items = draw(st.lists(_TXT, max_size=6))
            ra = draw(st.one_of(st.none(), st.integers(0, len(items))))
            exc = None if ra is None else draw(st.sampled_from(FAULTS + EXCS))
            return {"kind": k, "items": items, "raise_at": ra, "exc": exc}
        if k == "stream-raw":
            return {"kind": k, "chunks": draw(st.lists(st.one_of(_TXT, _BIG), max_size=7)),
                    "as": draw(st.sampled_from(["list", "gen", "tuple"]))}
        if k == "fault":
            return {"kind": k, "cls": draw(st.sampled_from(FAULTS))}
        if k == "exception":
            return {"kind": k, "cls": draw(st.sampled_from(EXCS))}
        return {"kind": k}

    @st.composite
    def one(draw):
        prot = draw(st.sampled_from(PROTS))
        o = draw(outcome(prot))
        d = st.integers(1, 60)
        cl = draw(st.one_of(
            st.just({"kind": "absent"}), st.just({"kind": "empty"}), st.just({"kind": "zero"}),
            st.just({"kind": "negative"}), st.just({"kind": "cut-in-char"}),
            st.builds(lambda x: {"kind": "lt", "d": x}, d),
            st.just({"kind": "eq"}), st.just({"kind": "eq"}),
            st.builds(lambda x: {"kind": "gt", "d": x}, d),
            st.builds(lambda x: {"kind": "gt-limit", "d": x}, st.integers(1, 5000)),
            st.builds(lambda t: {"kind": "bad", "text": t},
                      st.sampled_from(["abc", "12abc", "1.5", "0x10", "1e3", "1,000",
                                       "twelve", "12 13", "--1",
                                       # digits for str.isdigit() / str.isdecimal() that int() or
                                       # a careless parser treats differently; huge numbers
                                       # (spellings int() reads as a number - surrounding blanks, '+5',
                                       # '1_0', non-ASCII decimal digits - are left out: whether a
                                       # server should is not C13's question)
                                       "1\xb2", "\xb3", "9" * 4000, "\x00", "5\x00", "\xb9\xb2"]))))
        lim = draw(st.one_of(
            st.just({"kind": "0"}), st.just({"kind": "1"}),
            st.builds(lambda x: {"kind": "n-", "d": x}, d), st.just({"kind": "n"}),
            st.builds(lambda x: {"kind": "n+", "d": x}, d), st.just({"kind": "2MiB"}),
            st.just({"kind": "2MiB"})))
        c = _case(prot, o, cl, lim,
                  draw(st.sampled_from([1, 2, 7, 64, 1000, 8192, 100000])),
                  draw(st.booleans()),
                  abort=draw(st.one_of(st.none(), st.none(), st.integers(0, 5))),
                  validate=draw(st.booleans()),
                  arg=draw(_TXTB),
                  hb=draw(st.sampled_from([0, 0, 1, 10, 3000])))
        c["junk"] = draw(st.sampled_from([0, 0, 0, 1, 5, 9000]))
        c["ct"] = draw(st.sampled_from(["charset", "charset", "plain", "absent"]))
        return c
    return one()


# ---------------------------------------------------------------------------------- building
def _raise(cls):
    """raise the exception the case names (Fault classes by short name)"""
    from spyne import Fault
    from spyne import error as E
    if cls == "NotFound":
        raise E.ResourceNotFoundError("thing")
    if cls == "NotAllowed":
        raise E.RequestNotAllowed("no")
    if cls == "Creds":
        raise E.InvalidCredentialsError()
    if cls == "Validation":
        raise E.ValidationError("v")
    if cls == "Other":
        raise Fault("Weird", "boom")
    if cls in ("Client.Custom", "Client", "Server", "Server.Custom"):
        raise Fault(cls, "boom")
    if cls == "KeyError":
        raise KeyError("k")
    if cls == "ValueError":
        raise ValueError("v")
    if cls == "ZeroDivisionError":
        raise ZeroDivisionError("z")
    if cls == "RuntimeError-nonascii":
        raise RuntimeError("héllo ✓")
    if cls == "AssertionError":
        raise AssertionError("user assertion")
    raise HarnessError("unknown exception class %r" % (cls,))


def build_app(case, tns, calls):
    """fresh service (one generated, recording closure) + application for this case"""
    from spyne import Application, rpc, Service
    from spyne.model.primitive import Unicode, Integer
    from spyne.model.complex import ComplexModel, ComplexModelMeta, Array, Iterable
    from spyne.protocol.xml import XmlDocument
    from spyne.protocol.soap import Soap11
    from spyne.protocol.json import JsonDocument
    from spyne.protocol.http import HttpRpc

    o = case["outcome"]
    kind = o["kind"]
    Out = ComplexModelMeta("Out", (ComplexModel,), {
        "__namespace__": tns,
        "_type_info": [("a", Integer), ("b", Unicode), ("c", Array(Unicode))]})
    argt, rett = Unicode, Unicode

    if kind in ("ok-prim", "unknown-method", "malformed", "wsdl", "wsdl-error"):
        ret = o.get("ret", "ok")

        def op(ctx, s):
            calls.append(("op", s))
            return ret
    elif kind == "ok-complex":
        rett = Out

        def op(ctx, s):
            calls.append(("op", s))
            return Out(a=o["a"], b=o["b"], c=list(o["c"]))
    elif kind == "ok-void":
        rett = None

        def op(ctx, s):
            calls.append(("op", s))
    elif kind == "stream-gen":
        rett = Iterable(Unicode)

        def op(ctx, s):
            calls.append(("op", s))

            def g():
                for i, item in enumerate(o["items"]):
                    if o["raise_at"] == i:
                        _raise(o["exc"])
                    yield item
                if o["raise_at"] == len(o["items"]):
                    _raise(o["exc"])
            return g()
    elif kind == "stream-raw":
        chunks = [c.encode("utf-8") for c in o["chunks"]]

        def op(ctx, s):
            calls.append(("op", s))
            if o["as"] == "list":
                ctx.out_string = list(chunks)
            elif o["as"] == "tuple":
                ctx.out_string = tuple(chunks)
            else:
                ctx.out_string = (c for c in chunks)
    elif kind in ("fault", "exception"):
        def op(ctx, s):
            calls.append(("op", s))
            _raise(o["cls"])
    elif kind == "unserializable":
        rett = Array(Unicode)

        def op(ctx, s):
            calls.append(("op", s))
            return 5            # not iterable: serialisation raises in every out-protocol
    elif kind == "validation":
        argt = Integer

        def op(ctx, s):
            calls.append(("op", s))
            return "never"
    else:
        raise HarnessError("unknown outcome kind %r" % (kind,))

    kw = {"_args": ["s"]}
    if rett is not None:
        kw["_returns"] = rett
    svc = type("Svc", (Service,), {"op": rpc(argt, **kw)(op)})
    p = case["prot"]
    if p == "xml":
        inp, outp = XmlDocument(validator="soft"), XmlDocument()
    elif p == "soap11":
        inp, outp = Soap11(validator="soft"), Soap11()
    elif p == "json":
        inp, outp = JsonDocument(validator="soft"), JsonDocument()
    elif p == "http-json":
        inp, outp = HttpRpc(validator="soft"), JsonDocument()
    elif p == "http-xml":
        inp, outp = HttpRpc(validator="soft"), XmlDocument()
    else:
        raise HarnessError("unknown protocol %r" % (p,))
    return Application([svc], tns=tns, name="C13App", in_protocol=inp, out_protocol=outp)


def _ctype(case, mime):
    ct = case.get("ct", "charset")
    if ct == "absent":
        return None
    return mime + "; charset=utf-8" if ct == "charset" else mime


def build_request(case, tns):
    """-> (method, path, query, document bytes, content type)"""
    p = case["prot"]
    kind = case["outcome"]["kind"]
    name = "nope" if kind == "unknown-method" else "op"
    arg = "zz" if kind == "validation" else case["arg"]
    if kind in ("wsdl", "wsdl-error"):
        return "GET", "/", "wsdl", b"", None
    if p == "xml":
        doc = '<x:%s xmlns:x="%s"><x:s>%s</x:s></x:%s>' % (name, tns, escape(arg), name)
        if kind == "malformed":
            doc = doc[:-len("</x:%s>" % name)]
        return "POST", "/", "", doc.encode("utf-8"), _ctype(case, "text/xml")
    if p == "soap11":
        doc = ('<e:Envelope xmlns:e="%s"><e:Body><x:%s xmlns:x="%s"><x:s>%s</x:s></x:%s>'
               '</e:Body></e:Envelope>' % (SOAP_ENV, name, tns, escape(arg), name))
        if kind == "malformed":
            doc = doc[:-len("</e:Envelope>")]
        return "POST", "/", "", doc.encode("utf-8"), _ctype(case, "text/xml")
    if p == "json":
        doc = json.dumps({name: {"s": arg}})
        if kind == "malformed":
            doc = doc[:-1]
        return "POST", "/", "", doc.encode("utf-8"), _ctype(case, "application/json")
    # HttpRpc: GET with a query string; the body (hb bytes) is not part of the call
    return ("GET", "/" + name, "s=" + quote(arg, safe=""), b"B" * case.get("hb", 0),
            "application/octet-stream")


_NUM = re.compile(r"^[0-9]+$")


def content_length_text(cl, n, limit, doc=b""):
    k = cl["kind"]
    if k == "absent":
        return None
    if k == "empty":
        return ""
    if k == "zero":
        return "0"
    if k == "negative":
        return "-1"
    if k == "cut-in-char":
        # the declared length ends inside the first multi-byte UTF-8 sequence of the document
        for i, b in enumerate(doc):
            if b >= 0xC0:
                return str(i + 1)
        return str(max(0, n - 1))
    if k == "lt":
        return str(max(0, n - cl["d"]))
    if k == "eq":
        return str(n)
    if k == "gt":
        return str(n + cl["d"])
    if k == "gt-limit":
        return str(limit + cl["d"])
    if k == "bad":
        return cl["text"]
    raise HarnessError("unknown CONTENT_LENGTH class %r" % (k,))


def limit_value(lim, n):
    k = lim["kind"]
    if k == "0":
        return 0
    if k == "1":
        return 1
    if k == "n-":
        return max(0, n - lim["d"])
    if k == "n":
        return n
    if k == "n+":
        return n + lim["d"]
    if k == "2MiB":
        return MIB2
    raise HarnessError("unknown limit class %r" % (k,))


# ---------------------------------------------------------------------------------- observation
class CountingInput(object):
    """wsgi.input over a fixed byte string; counts what is asked for and what is handed out"""

    def __init__(self, data):
        self._b = io.BytesIO(data)
        self.size = len(data)
        self.returned = 0
        self.requested = 0
        self.calls = 0
        self.unbounded = []

    def _did(self, what, args, data):
        self.calls += 1
        n = args[0] if args else None
        if n is None or n < 0:
            self.unbounded.append(what)
        else:
            self.requested += n
        self.returned += len(data) if isinstance(data, bytes) else sum(len(x) for x in data)
        return data

    def read(self, *args):
        return self._did("read", args, self._b.read(*args))

    def readline(self, *args):
        return self._did("readline", args, self._b.readline(*args))

    def readlines(self, *args):
        return self._did("readlines", (), self._b.readlines(*args))

    def __iter__(self):
        for line in self._b:
            self._did("iter", (), line)
            yield line


class Obs(object):
    def __init__(self):
        self.log = []            # the single ordered event log
        self.sr = []             # (status, headers, exc_info)
        self.chunks = []
        self.written = []
        self.escaped = None      # (exc, stage) stage in call | iter | close
        self.exhausted = False
        self.iterable = None
        self.has_close = None

    def pos(self, name, last=False):
        idx = [i for i, e in enumerate(self.log) if e == name]
        if not idx:
            return None
        return idx[-1] if last else idx[0]


def drive(callable_, environ, k, obs):
    def start_response(status, headers, exc_info=None):
        obs.sr.append((status, headers, exc_info))
        obs.log.append("start_response")

        def write(data):
            obs.log.append("chunk")
            obs.chunks.append(data)
            obs.written.append(data)
        return write

    try:
        it = callable_(environ, start_response)
    except Exception as e:
        obs.escaped = (e, "call")
        return
    obs.log.append("returned")
    obs.iterable = it
    obs.has_close = hasattr(it, "close")
    if it is None or isinstance(it, (str, bytes)):
        return
    try:
        try:
            iterator = iter(it)
            n = 0
            while k is None or n < k:
                try:
                    c = next(iterator)
                except StopIteration:
                    obs.exhausted = True
                    obs.log.append("exhausted")
                    break
                obs.log.append("chunk")
                obs.chunks.append(c)
                n += 1
        except Exception as e:
            obs.escaped = (e, "iter")
    finally:
        obs.log.append("close-called")
        try:
            if obs.has_close:
                it.close()
        except Exception as e:
            if obs.escaped is None:
                obs.escaped = (e, "close")
        obs.log.append("close-returned")


_HOP = {"connection", "keep-alive", "proxy-authenticate", "proxy-authorization", "te",
        "trailers", "transfer-encoding", "upgrade"}
_STATUS = re.compile(r"^[1-5][0-9][0-9] \S.*$")
_HNAME = re.compile(r"^[!#$%&'*+.^_`|~0-9A-Za-z-]+$")


def check_start_response_args(status, headers):
    """-> list of short labels of what is wrong (PEP 3333 'The start_response() Callable')"""
    bad = []
    if type(status) is not str:
        bad.append("status-not-str")
    elif not _STATUS.match(status) or status != status.strip() or "\n" in status or "\r" in status:
        bad.append("status-line")
    if type(headers) is not list:
        bad.append("headers-not-list")
    try:
        items = list(headers)
    except TypeError:
        return bad + ["headers-not-iterable"]
    for h in items:
        if type(h) is not tuple or len(h) != 2:
            bad.append("header-not-2-tuple")
            continue
        name, value = h
        if type(name) is not str or type(value) is not str:
            bad.append("header-not-str")
            continue
        if not _HNAME.match(name):
            bad.append("header-name")
        if name.lower() in _HOP:
            bad.append("hop-by-hop-header")
        if re.search(r"[\x00-\x08\x0a-\x1f\x7f]", value):
            bad.append("header-value-control-char")
        try:
            value.encode("latin-1")
        except UnicodeEncodeError:
            bad.append("header-value-not-latin1")
    return sorted(set(bad))


# ---------------------------------------------------------------------------------- classification
def intended_path(kind, o):
    if kind in ("ok-prim", "ok-complex", "ok-void"):
        return "success"
    if kind in ("stream-gen", "stream-raw"):
        return "stream"
    if kind in ("wsdl", "wsdl-error"):
        return kind
    return "fault"


def classify(case, n, stream_len, limit, cl_text):
    """-> (expected, path)
    expected: wsdl | not-allowed | bad-content-length | too-long | intended | garbled |
              unspecified
    path (a label for signatures only): success | stream | fault | wsdl | wsdl-error"""
    o = case["outcome"]
    kind = o["kind"]
    ipath = intended_path(kind, o)
    if kind in ("wsdl", "wsdl-error"):
        return "wsdl", ipath
    numeric = cl_text is not None and _NUM.match(cl_text) is not None
    declared = int(cl_text) if numeric else None
    if not is_doc(case["prot"]):
        # the GET body is not part of the call (the reply path stays the intended one), but
        # its declared length still is the length of a request body
        if numeric and declared > limit:
            return "too-long", ipath
        return "intended", ipath
    if case["prot"] == "soap11" and case.get("ct") == "absent":
        # Soap11 refuses a request without a Content-Type (405) before it looks at the body:
        # a refusal for an independent reason, whatever the length
        return "not-allowed", "fault"
    if case["cl"]["kind"] == "bad":
        return "bad-content-length", "fault"
    if numeric and declared > limit:
        return "too-long", "fault"
    if numeric and declared == n and stream_len >= n:
        return "intended", ipath
    # what a reader that honours CONTENT_LENGTH and the limit gets: the whole document or not
    if numeric:
        eff = min(declared, stream_len)
    elif cl_text is None:
        eff = min(limit, stream_len)
    else:                      # '' and '-1'
        eff = 0
    if numeric and (declared < n or stream_len > n):
        return "garbled", "fault"
    return "unspecified", (ipath if eff == n else "fault")


def rel(limit, n):
    d = limit - n
    if d < -1:
        return "lim<n-1"
    if d > 1:
        return "lim>n+1"
    return {-1: "lim=n-1", 0: "lim=n", 1: "lim=n+1"}[d]


def block_class(b, n):
    if b == 1:
        return "1"
    if b < n:
        return "<n"
    return ">=n"


def exc_label(exc):
    """(type label, innermost spyne frame).  Exceptions raised by the generated user code are
    bucketed (their class is a parameter of the case, not a root cause)."""
    et, where = F.exc_origin(exc)
    tb = traceback.extract_tb(exc.__traceback__)
    if tb and os.path.abspath(tb[-1].filename) == os.path.abspath(__file__.replace(".pyc", ".py")):
        from spyne import Fault
        et = "user-Fault" if isinstance(exc, Fault) else "user-exception"
    return et, where


def _validate_origin(exc):
    """name of the wsgiref.validate function that raised, or None"""
    tb = traceback.extract_tb(exc.__traceback__)
    if not tb:
        return None
    last = tb[-1]
    if last.name == "assert_" and len(tb) > 1:
        last = tb[-2]
    if last.filename.replace("\\", "/").endswith("wsgiref/validate.py"):
        return last.name
    return None


# ---------------------------------------------------------------------------------- one case
def run_case(case, rec):
    from spyne.server.wsgi import WsgiApplication

    fails = []
    tns = "urn:c13:%07d" % next(_uniq)
    calls = []
    app = build_app(case, tns, calls)
    method, path_info, query, doc, ctype = build_request(case, tns)
    n = len(doc)
    limit = limit_value(case["limit"], n)
    cl_text = content_length_text(case["cl"], n, limit, doc)
    stream_bytes = doc + b"J" * case.get("junk", 0)
    stream = CountingInput(stream_bytes)
    expected, path = classify(case, n, len(stream_bytes), limit, cl_text)
    numeric = cl_text is not None and _NUM.match(cl_text) is not None
    declared = int(cl_text) if numeric else None
    family = "doc" if is_doc(case["prot"]) else "httprpc"
    chunked = bool(case["chunked"])
    k = case["abort"]

    wsgi_app = WsgiApplication(app, chunked=chunked, max_content_length=limit,
                               block_length=case["block"])
    if case["outcome"]["kind"] == "wsdl-error":
        # fault injection: the documented `wsdl_exception` path of handle_wsdl_request
        def _boom(url):
            raise RuntimeError("injected failure of WSDL generation")
        wsgi_app.doc.wsdl11.build_interface_document = _boom
    if case["outcome"].get("edit"):
        _n = [0]

        def _edit(ctx, how=case["outcome"]["edit"]):
            _n[0] += 1
            if how == "append":
                ctx.transport.wsdl = ctx.transport.wsdl + b"<!-- edited by a wsdl listener -->"
            elif how == "vary":
                ctx.transport.wsdl = ctx.transport.wsdl + b"<!-- request " + b"#" * (7 * _n[0]) + b" -->"
            else:
                ctx.transport.wsdl = b"<definitions/>"
        wsgi_app.event_manager.add_listener("wsdl", _edit)
        if case["outcome"]["edit"] == "vary":
            # an earlier ?wsdl request on the same instance (its document has another length)
            _it = wsgi_app({"REQUEST_METHOD": "GET", "SCRIPT_NAME": "", "PATH_INFO": "/",
                            "QUERY_STRING": "wsdl", "SERVER_NAME": "localhost", "SERVER_PORT": "80",
                            "SERVER_PROTOCOL": "HTTP/1.1", "wsgi.version": (1, 0),
                            "wsgi.url_scheme": "http", "wsgi.input": CountingInput(b""),
                            "wsgi.errors": sys.stderr, "wsgi.multithread": False,
                            "wsgi.multiprocess": False, "wsgi.run_once": False},
                           lambda s_, h_, e_=None: None)
            try:
                for _ in _it:
                    pass
            finally:
                if hasattr(_it, "close"):
                    _it.close()
    obs = Obs()
    app.event_manager.add_listener("method_context_closed",
                                   lambda ctx: obs.log.append("ctx-closed"))
    wsgi_app.event_manager.add_listener("wsgi_close",
                                        lambda ctx: obs.log.append("wsgi-close"))

    environ = {
        "REQUEST_METHOD": method, "SCRIPT_NAME": "", "PATH_INFO": path_info,
        "QUERY_STRING": query, "SERVER_NAME": "localhost", "SERVER_PORT": "80",
        "SERVER_PROTOCOL": "HTTP/1.1", "HTTP_HOST": "localhost",
        "wsgi.version": (1, 0), "wsgi.url_scheme": "http", "wsgi.input": stream,
        "wsgi.errors": io.StringIO(), "wsgi.multithread": True, "wsgi.multiprocess": False,
        "wsgi.run_once": False,
    }
    if ctype is not None:
        environ["CONTENT_TYPE"] = ctype
    if cl_text is not None:
        environ["CONTENT_LENGTH"] = cl_text

    validated = bool(case.get("validate")) and (cl_text is None or cl_text == "" or numeric)
    target = wsgi_app
    if validated:
        try:
            wsgiref.validate.check_environ(dict(environ))
        except AssertionError as e:
            raise HarnessError("wsgiref.validate rejects the harness's environ: %s" % (e,))
        target = wsgiref.validate.validator(wsgi_app)

    try:
        drive(target, environ, k, obs)
    finally:
        # spyne keeps every Application (plus two NullServers) in a global registry
        from spyne.util import appreg
        try:
            appreg.unregister_application(app)
        except KeyError:
            pass

    what = ("%s %s chunked=%s block=%d limit=%d n=%d stream=%d CONTENT_LENGTH=%r abort=%r "
            "validated=%s expected=%s" % (case["prot"], json.dumps(case["outcome"])[:200],
                                          chunked, case["block"], limit, n, len(stream_bytes),
                                          cl_text, k, validated, expected))

    def bad(sig, msg):
        fails.append((sig, "%s\n  case: %s\n  log: %s\n  start_response: %r"
                      % (msg, what, " ".join(obs.log),
                         [(s, h) for s, h, _ in obs.sr][:2])))

    body = None
    status = obs.sr[0][0] if obs.sr else None
    # ---- 1. nothing escapes ---------------------------------------------------------
    if obs.escaped is not None:
        exc, stage = obs.escaped
        vfn = _validate_origin(exc) if isinstance(exc, AssertionError) else None
        if vfn == "__next__" and "non-bytestring" in str(exc):
            bad("C13|chunk-not-bytes|%s" % path,
                "wsgiref.validate.validator: %s" % (exc,))
        elif vfn == "__next__" and "start_response has not yet been called" in str(exc):
            bad("C13|start_response-after-chunk|%s" % path,
                "wsgiref.validate.validator: %s" % (exc,))
        elif vfn is not None:
            bad("C13|wsgiref-validate|%s|%s" % (vfn, path),
                "wsgiref.validate.validator objects to the response: %s" % (exc,))
        elif stage == "call":
            et, where = exc_label(exc)
            bad("C13|escaped|%s|%s|%s" % (et, where, path),
                "%r escaped from the WSGI callable (start_response had been called %d times)"
                % (exc, len(obs.sr)))
        else:
            et, where = exc_label(exc)
            bad("C13|escaped-during-body|%s|%s|%s" % (et, where, path),
                "%r escaped from %s of the response iterable after %d chunks"
                % (exc, "close()" if stage == "close" else "next()", len(obs.chunks)))
    else:
        it = obs.iterable
        if it is None or isinstance(it, (str, bytes)) or not hasattr(it, "__iter__"):
            bad("C13|iterable-type|%s" % path,
                "the WSGI callable returned %s, not an iterable of bytes" % type(it).__name__)
        # ---- 2. start_response ----------------------------------------------------
        nsr = len(obs.sr)
        if not (nsr == 1 or (nsr == 0 and k == 0)):
            bad("C13|start_response-count|%s" % path, "start_response was called %d times" % nsr)
        if nsr:
            p_sr, p_chunk = obs.pos("start_response"), obs.pos("chunk")
            if p_chunk is not None and p_chunk < p_sr:
                bad("C13|start_response-after-chunk|%s" % path,
                    "a body chunk was handed over before start_response was called")
            for s, h, _ in obs.sr:
                for label in check_start_response_args(s, h):
                    bad("C13|start_response-args|%s|%s" % (label, path),
                        "start_response(%r, %r): %s" % (s, h, label))
        # ---- 3. chunks ----------------------------------------------------------------
        for c in obs.chunks:
            if type(c) is not bytes:
                bad("C13|chunk-not-bytes|%s" % path,
                    "body chunk of type %s: %r" % (type(c).__name__, c[:60] if hasattr(c, "__getitem__") else c))
                break
        else:
            body = b"".join(obs.chunks)
        # ---- 4. Content-Length --------------------------------------------------------
        if nsr and body is not None and type(obs.sr[0][1]) is list:
            for h in obs.sr[0][1]:
                if type(h) is tuple and len(h) == 2 and type(h[0]) is str \
                        and h[0].lower() == "content-length":
                    v = h[1]
                    ok = type(v) is str and _NUM.match(v) is not None
                    if ok and obs.exhausted:
                        ok = int(v) == len(body)
                    elif ok:
                        ok = len(body) <= int(v)
                    if not ok:
                        bad("C13|content-length-mismatch|%s" % path,
                            "Content-Length: %r but %d body bytes were handed over%s"
                            % (v, len(body), "" if obs.exhausted else " (aborted)"))
        # ---- 5. the context is closed once, and not before the body is handed over -----
        ncl = obs.log.count("ctx-closed")
        nwc = obs.log.count("wsgi-close")
        if ncl != 1:
            bad("C13|closed-count!=1|%s" % path,
                "method_context_closed fired %d times (iterable %s close(); exhausted=%s)"
                % (ncl, "has" if obs.has_close else "has no", obs.exhausted))
        if not path.startswith("wsdl") and nwc != 1:
            bad("C13|wsgi_close-count!=1|%s" % path, "wsgi_close fired %d times" % nwc)
        if obs.exhausted:
            threshold = obs.pos("chunk", last=True)
            tname = "the last chunk was yielded"
            if threshold is None:
                threshold = obs.pos("returned")
                tname = "the (empty) iterable was returned"
        else:
            threshold = obs.pos("close-called")
            tname = "close() was called on the partially consumed iterable"
        early = [e for e in ("ctx-closed", "wsgi-close")
                 if obs.pos(e) is not None and obs.pos(e) < threshold]
        if early:
            bad("C13|closed-before-body|%s|chunked=%s" % (path, chunked),
                "%s fired before %s" % (" and ".join(
                    {"ctx-closed": "method_context_closed", "wsgi-close": "wsgi_close"}[e]
                    for e in early), tname))

    # ---- 6. the size limit -----------------------------------------------------------
    answered_too_long = None
    if obs.escaped is None and status is not None and body is not None \
            and (obs.exhausted or len(obs.chunks) > 0):
        answered_too_long = (type(status) is str and status.startswith("413")) \
            or b"RequestTooLong" in body
    if numeric and declared > limit and expected in ("too-long", "not-allowed") and calls:
        bad("C13|user-code-ran-on-too-long|in=%s" % family,
            "declared length %d > max_content_length %d, but the user function ran %d times"
            % (declared, limit, len(calls)))
    if expected == "too-long":
        if obs.escaped is None and status is not None:
            ok_status = ("413",) if case["prot"] != "soap11" else ("413", "500")
            good = type(status) is str and status[:3] in ok_status \
                and (body is None or not obs.exhausted or b"RequestTooLong" in body)
            if not good:
                bad("C13|too-long-not-413|in=%s" % family,
                    "declared length %d > max_content_length %d answered with %r %r"
                    % (declared, limit, status, (body or b"")[:200]))
    elif expected not in ("bad-content-length", "not-allowed") and answered_too_long:
        within = (numeric and declared <= limit) or \
                 (not numeric and len(stream_bytes) <= limit)
        if within:
            bad("C13|refused-within-limit|%s" % path,
                "a request of %s bytes (max_content_length %d) was refused as too long: %r"
                % (declared if numeric else "undeclared, %d on the wire" % len(stream_bytes),
                   limit, status))
    if stream.returned > limit:
        bad("C13|read-beyond-limit",
            "%d bytes were read from wsgi.input, max_content_length is %d"
            % (stream.returned, limit))
    if numeric and stream.returned > declared:
        bad("C13|read-beyond-content-length",
            "%d bytes were read from wsgi.input, CONTENT_LENGTH is %d"
            % (stream.returned, declared))
    if stream.unbounded:
        bad("C13|unbounded-read", "wsgi.input was read without a size: %s"
            % ",".join(sorted(set(stream.unbounded))))

    # ---- harness self-check: did the request do what the case intends? ---------------
    if expected == "intended" and obs.escaped is None and isinstance(status, str) \
            and case["cl"]["kind"] != "bad":
        kind = case["outcome"]["kind"]
        want2xx = path in ("success", "stream") and not (
            kind == "stream-gen" and case["outcome"]["raise_at"] is not None)
        is2xx = status.startswith("2")
        ran = len(calls) == 1
        wantrun = kind not in ("validation", "unknown-method", "malformed")
        if (want2xx and not is2xx) or ran != wantrun or \
                (path == "fault" and is2xx and kind != "unserializable"):
            rec.notes.append("intended-mismatch: %s/%s status=%s user-calls=%d"
                             % (case["prot"], kind, status[:3], len(calls)))
            rec.count("intended-mismatch")

    # ---- coverage accounting -----------------------------------------------------------
    kind = case["outcome"]["kind"]
    okind = kind
    if kind == "stream-gen":
        ra = case["outcome"]["raise_at"]
        okind = "stream-gen" if ra is None else \
            ("stream-gen-raises-first" if ra == 0 else "stream-gen-raises-later")
        if not case["outcome"]["items"] and ra is None:
            okind = "stream-gen-empty"
    elif kind in ("fault", "exception"):
        okind = "%s:%s" % (kind, case["outcome"]["cls"])
    total = len(case["outcome"]["chunks"]) if kind == "stream-raw" and path == "stream" else 1
    if k is None:
        aclass = "none"
    elif k == 0:
        aclass = "k=0"
    elif k < total:
        aclass = "0<k<total"
    else:
        aclass = "k>=total"
    clclass = case["cl"]["kind"] + ("+junk" if case.get("junk") else "")
    key = {"outcome": okind, "prot": case["prot"], "cl": clclass, "limit": rel(limit, n),
           "chunked": chunked, "abort": aclass, "block": block_class(case["block"], n),
           "validated": validated, "expected": expected}
    nontrivial = (clclass != "eq" or abs(limit - n) <= 1 or (k is not None and k < total)
                  or path in ("stream", "fault") or expected == "too-long")
    rec.case(case, failures=fails, nontrivial=key if nontrivial else None,
             classes=["outcome:" + okind, "prot:" + case["prot"], "cl:" + clclass,
                      "limit:" + rel(limit, n), "chunked:%s" % chunked, "abort:" + aclass,
                      "block:" + block_class(case["block"], n), "expected:" + expected,
                      "path:" + path, "validated:%s" % validated,
                      "chunks:%s" % (len(obs.chunks) if len(obs.chunks) < 3 else ">=3")])
    return fails


# ---------------------------------------------------------------------------------- shards
def shards(tier):
    out = []
    for p in PROTS:
        for ch in (True, False):
            for b in (1, 7, 8192):
                out.append({"kind": "enum", "grid": "A", "prot": p, "chunked": ch, "block": b})
            out.append({"kind": "enum", "grid": "B", "prot": p, "chunked": ch})
            out.append({"kind": "enum", "grid": "C", "prot": p, "chunked": ch})
    n = 1000 if tier == "quick" else 25000
    out += [{"kind": "hyp", "i": i, "n": n} for i in range(16)]
    return out


def run_shard(shard, rec):
    if shard["kind"] == "hyp":
        rec.hyp(hyp_cases(rec.tier), lambda case: run_case(case, rec), shard["n"])
        return
    gen = {"A": grid_a, "B": grid_b, "C": grid_c}[shard["grid"]]
    for case in gen(shard, rec.tier):
        run_case(case, rec)


class _NullRec(object):
    tier = "quick"
    seed = 0

    def __init__(self):
        self.notes = []

    def case(self, *a, **k):
        pass

    def count(self, *a, **k):
        pass


def replay(case):
    return run_case(case, _NullRec())
