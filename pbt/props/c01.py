"""C01 — XML/SOAP wire fidelity.

case = (universe, one method signature, argument values, scripted return values,
        protocol in {xml, soap11, soap12}, validator in {None, soft, lxml}, spelling variant)

The request is written by the schema-driven reference encoder (pbt.ref_xml) from the schema
the application publishes, checked with libxml2 against that schema, and sent through the
server pipeline.  Oracles: the recording user function saw exactly one call with equal
values; the response, read back by the reference decoder, denotes the scripted return;
zeep (a third-party, schema-driven SOAP client built from the WSDL alone) and spyne's own
client decode the reply to equal values.
"""
import io

from hypothesis import strategies as st
from lxml import etree

from .. import build, drive, spec, values, ref_xml
from .. import findings as F
from ..ref_xml import q

PROPERTY = "C01"
RULE = ("cases = (generated type universe, method signature, conformant argument and return "
        "values, protocol, validator, spelling variant); requests written by a schema-driven "
        "reference encoder, validated by libxml2, run through the server pipeline; oracle = "
        "recorded arguments + reference-decoded response (+ zeep, + spyne client); plus a `dfl` "
        "part: a repeated member declared with a generated default list, 1-3 requests with "
        "non-empty lists on one application, the function must see and the reply must carry "
        "exactly the sent list. "
        "Non-trivial = some argument and some return value is non-None and the case has a "
        "nested object / array>=2 / XML attribute / multiple returns / non-wrapped style / "
        "inheritance / facet; distinct = hash of (signature shape, value classes, config)")
ASSUMPTIONS = [
    "the published schema fixes element names, namespaces and order (C06/C07 check the schema)",
    "XML cannot carry non-Char code points: not generated; \\r is not generated in text",
    "default= customisations are not generated in the universes; the `dfl` part covers the one "
    "place where a default takes part in decoding a conformant document: a repeated member "
    "declared with a default list, always sent non-empty (1-3 requests on one application)",
    "zeep and lxml are trusted as third-party decoders after calibration on the request side",
]
SOAP11 = "http://schemas.xmlsoap.org/soap/envelope/"
SOAP12 = "http://www.w3.org/2003/05/soap-envelope"
MAXTASKSPERCHILD = 4


def cases(tier):
    @st.composite
    def one(draw):
        U = draw(spec.universes(max_classes=3))
        style = draw(st.sampled_from(["wrapped", "wrapped", "wrapped", "bare", "out_bare"]))
        m = draw(spec.methods(U, name="m0", styles=(style,)))
        # +-INF and NaN lie outside Double's declared default open range (gt=-inf, lt=inf)
        if U["classes"] and draw(st.integers(0, 5)) == 0:
            # a member carrying protocol-specific attributes for ANOTHER protocol (excluded from
            # JsonDocument output only): it must travel over XML as if they were not there
            c = U["classes"][draw(st.integers(0, len(U["classes"]) - 1))]
            prims = [ft for fn, ft in c["fields"] if ft["k"] == "prim" and ft["t"] != "ByteArray"]
            if prims:
                prims[0].setdefault("f", {})["pa_json_exc"] = True
        vg = values.ValueGen(U, special_floats=False, nil_items=True)
        if m["style"] == "bare":
            args = [draw(vg.single(t)) for _, t in m["args"]]
        else:
            args = [draw(vg.value(t)) for _, t in m["args"]]
        # the body element of a bare response cannot be absent or nil
        rets = [draw(vg.single(t) if style != "wrapped" else vg.value(t)) for t in m["ret"]]
        prot = draw(st.sampled_from(["xml", "soap11", "soap12"]))
        case = {"U": U, "m": m, "args": args, "rets": rets, "prot": prot,
                "validator": draw(st.sampled_from([None, "soft", "lxml"])),
                "variant": draw(st.integers(0, 3)),
                # documented, non-default constructor options that must not change what a
                # conformant document denotes
                "popts": draw(st.sampled_from([None, None, None, "mix"])) and {
                    "in": draw(st.fixed_dictionaries({}, optional={
                        "remove_pis": st.just(False), "strip_cdata": st.just(False),
                        "ns_clean": st.just(True), "compact": st.just(False),
                        "replace_null_with_default": st.just(False)})),
                    "out": draw(st.fixed_dictionaries({}, optional={
                        "pretty_print": st.just(True), "cleanup_namespaces": st.just(False),
                        "xml_declaration": st.just(False)}))}}
        cn = [c["name"] for c in U["classes"]]
        if prot != "xml" and cn:
            # SOAP headers: one or two header classes in each direction
            for key, vkey in (("in_header", "in_hdr"), ("out_header", "out_hdr")):
                if draw(st.integers(0, 2)) == 0:
                    names = draw(st.lists(st.sampled_from(cn), min_size=1, max_size=2, unique=True))
                    m[key] = names
                    case[vkey] = [draw(st.one_of(st.none(), vg.single({"k": "ref", "n": n}))) if len(names) > 1
                                  else draw(vg.single({"k": "ref", "n": n})) for n in names]
        return case
    return one()


def _protocols(case):
    from spyne.protocol.xml import XmlDocument
    from spyne.protocol.soap import Soap11, Soap12
    cls = {"xml": XmlDocument, "soap11": Soap11, "soap12": Soap12}[case["prot"]]
    po = case.get("popts") or {}
    return cls(validator=case["validator"], **(po.get("in") or {})), cls(**(po.get("out") or {}))


def _json_neighbour(E, case):
    """another protocol instance (JsonDocument, through spyne.util.dictdoc) serializes the
    returned objects first: per-protocol state must not reach the XML protocols under test"""
    if not any("pa_json_exc" in (ft.get("f") or {}) for c in case["U"]["classes"] for _, ft in c["fields"]):
        return
    try:
        from spyne.util.dictdoc import get_object_as_json
        for (t, j) in list(zip(case["m"]["ret"], case["rets"])) + \
                [(t, j) for (_, t), j in zip(case["m"]["args"], case["args"])]:
            if t["k"] == "ref" and (t.get("occ") or {}).get("max", 1) == 1 and j is not None:
                get_object_as_json(E.B.to_native(t, j), E.B.classes[t["n"]])
    except Exception:
        pass


class Env(object):
    """everything built for one case"""

    def __init__(self, case, protocols=None, B=None, after_app=None):
        self.case = case
        U, m = case["U"], case["m"]
        self.B = B if B is not None else build.Built(U)
        self.rec = build.Recorder()
        self.svc = build.make_service(self.B, "Svc", [m], self.rec)
        inp, outp = (protocols or _protocols)(case)
        self.app = build.make_app([self.svc], U["tns"], inp, outp)
        xs = self.app.interface.docs.xml_schema
        xs.build_validation_schema()
        self.schema = xs.validation_schema
        self.model = ref_xml.SchemaModel(xs.schema_dict.values())
        self.codec = ref_xml.Codec(self.model, U, variant=case.get("variant", 0),
                                   nil_for_none=bool(case.get("variant", 0) & 2))
        if after_app is not None:
            # (C16) history steps that happen between building the application and its request
            after_app(self)
        rets = [self.B.to_native(t, j) for t, j in zip(m["ret"], case["rets"])]
        oh = None
        if case.get("out_hdr") is not None:
            oh = [self.B.to_native({"k": "ref", "n": n}, j) for n, j in zip(m["out_header"], case["out_hdr"])]
            oh = oh[0] if len(oh) == 1 else oh

        def fn(ctx, args):
            if oh is not None:
                ctx.out_header = oh
            if len(rets) == 0:
                return None
            if len(rets) == 1:
                return rets[0]
            return tuple(rets)
        self.rec.script[m["name"]] = fn

    # -- request ------------------------------------------------------
    def request_element(self):
        U, m = self.case["U"], self.case["m"]
        tns = U["tns"]
        tq = self.model.elements.get((tns, m["name"]))
        if tq is None:
            raise ValueError("no global element {%s}%s in the published schema" % (tns, m["name"]))
        root = self.codec.root(q(tns, m["name"]), prefixes=("p%d", "ns%d", "x%dy", "q%d"))
        if m["style"] == "bare" and m["args"]:
            (an, at), av = m["args"][0], self.case["args"][0]
            if av is None:
                root.set(ref_xml.NIL, "true")
            else:
                self.codec.encode_value(root, tq, at, av)
        else:
            self.codec.encode_members(root, tq, m["args"],
                                      dict(zip([a[0] for a in m["args"]], self.case["args"])))
        return root

    def wrap(self, body_el):
        p = self.case["prot"]
        if p == "xml":
            return body_el
        ns = SOAP11 if p == "soap11" else SOAP12
        envl = etree.Element(q(ns, "Envelope"), nsmap={"soapenv": ns})
        if self.case.get("in_hdr") is not None:
            h = etree.SubElement(envl, q(ns, "Header"))
            for cname, j in zip(self.case["m"]["in_header"], self.case["in_hdr"]):
                if j is None:
                    continue
                c = self.codec.cspec[cname]
                tq = (c["ns"], c.get("type_name") or cname)
                el = self.codec.root(q(*tq), prefixes=("h%d",))
                self.codec.encode_value(el, tq, {"k": "ref", "n": cname}, j)
                h.append(el)
        b = etree.SubElement(envl, q(ns, "Body"))
        b.append(body_el)
        return envl

    def unwrap(self, doc):
        p = self.case["prot"]
        if p == "xml":
            return doc, None
        ns = SOAP11 if p == "soap11" else SOAP12
        if doc.tag != q(ns, "Envelope"):
            raise ValueError("response root is %s" % doc.tag)
        body = doc.find(q(ns, "Body"))
        kids = [c for c in body if isinstance(c.tag, str)]
        return (kids[0] if kids else None), doc.find(q(ns, "Header"))

    # -- response ------------------------------------------------------
    def decode_response(self, el):
        """-> list of decoded return values (RefObj / natives)"""
        U, m = self.case["U"], self.case["m"]
        tns = U["tns"]
        rname = m["name"] + "Response"
        if m["style"] in ("bare", "out_bare"):
            if not m["ret"]:
                return []
            if el is None:
                return [None]
            if el.tag != q(tns, rname):
                raise ValueError("response element is %s, expected {%s}%s" % (el.tag, tns, rname))
            tq = self.model.elements.get((tns, rname))
            return [self.codec.decode_value(el, tq, m["ret"][0])]
        if el is None or el.tag != q(tns, rname):
            raise ValueError("response element is %s, expected {%s}%s"
                             % (None if el is None else el.tag, tns, rname))
        tq = self.model.elements.get((tns, rname))
        if len(m["ret"]) == 1:
            names = [m["name"] + "Result"]
        else:
            names = ["%sResult%d" % (m["name"], i) for i in range(len(m["ret"]))]
        obj = self.codec.decode_members(el, tq, list(zip(names, m["ret"])), rname)
        return [getattr(obj, n, None) for n in names]


def shape_of(case):
    """what distinguishes one case from another for the distinct_nontrivial count"""
    m = case["m"]
    labs = set()
    for (an, at), av in zip(m["args"], case["args"]):
        labs |= values.classes_of(at, av, case["U"])
    for rt, rv in zip(m["ret"], case["rets"]):
        labs |= set("ret:" + x for x in values.classes_of(rt, rv, case["U"]))
    return labs


INTERESTING = {"nested_object", "wrapped_array>=2", "unwrapped_array>=2", "xmlattr",
               "inherited_fields", "facet", "array>10", "soap_header"}


def run_case(case, rec, with_clients=True):
    fails = []
    labs = shape_of(case)
    m = case["m"]
    cfg = "%s/%s" % (case["prot"], case["validator"])
    try:
        E = Env(case)
        req_body = E.request_element()
    except Exception as e:
        et, where = F.exc_origin(e)
        fails.append(("C01|build-raises|%s|%s" % (et, where),
                      "building the application or the reference request raised %r" % (e,)))
        rec.case(case, failures=fails, classes=["build_error"])
        return fails
    # the request must be valid under the published schema (otherwise it is not a C01 case)
    if not E.schema.validate(req_body):
        err = str(E.schema.error_log.last_error)
        fails.append(("C01|schema-rejects-reference-request|%s" % _facet_of(err),
                      "schema rejects the reference request: %s\n%s"
                      % (err, etree.tostring(req_body).decode()[:600])))
        rec.case(case, failures=fails, classes=["schema_rejected"])
        return fails
    req = etree.tostring(E.wrap(req_body), xml_declaration=bool(case["variant"] & 1),
                         encoding="UTF-8")
    _json_neighbour(E, case)
    out = drive.server_call(E.app, req)
    n_calls = len(E.rec.calls)
    if out.escaped is not None:
        et, where = F.exc_origin(out.escaped[0])
        fails.append(("C01|escaped|%s|%s" % (et, where),
                      "%s: %r escaped from %s\nrequest: %s" % (cfg, out.escaped[0], out.escaped[1],
                                                              req.decode()[:600])))
    elif out.fault is not None:
        fails.append(("C01|rejected-conformant|%s|%s" % (case["validator"], _fault_class(out.fault)),
                      "%s: conformant request answered with fault %r\nrequest: %s"
                      % (cfg, out.fault, req.decode()[:800])))
    else:
        if n_calls != 1:
            fails.append(("C01|invocations!=1", "%s: function invoked %d times" % (cfg, n_calls)))
        else:
            name, got_args, _hdr = E.rec.calls[0]
            if len(got_args) != len(m["args"]):
                fails.append(("C01|argcount", "%s: got %d args, sent %d"
                              % (cfg, len(got_args), len(m["args"]))))
            else:
                for (an, at), g, e in zip(m["args"], got_args, case["args"]):
                    r = values.value_eq(E.B, at, g, e, path=an)
                    if r:
                        fails.append(("C01|request|%s" % _diff_class(at, r),
                                      "%s: argument differs: %s\nrequest: %s"
                                      % (cfg, r, req.decode()[:800])))
                        break
        # SOAP headers
        if n_calls == 1 and case.get("in_hdr") is not None:
            got_h = E.rec.calls[0][2]
            names = m["in_header"]
            got_list = [got_h] if len(names) == 1 else (list(got_h) if isinstance(got_h, (list, tuple)) else [got_h])
            for cname, g, e in zip(names, got_list, case["in_hdr"]):
                r = values.value_eq(E.B, {"k": "ref", "n": cname}, g, e, path="in_header:" + cname)
                if r:
                    fails.append(("C01|in-header|%s" % _diff_class({"k": "ref", "n": cname}, r),
                                  "%s: ctx.in_header differs: %s\nrequest: %s" % (cfg, r, req.decode()[:800])))
                    break
        # response
        try:
            doc = etree.fromstring(out.out_bytes)
            el, _hdr = E.unwrap(doc)
            if case.get("out_hdr") is not None:
                kids = [] if _hdr is None else [c for c in _hdr if isinstance(c.tag, str)]
                for cname, e in zip(m["out_header"], case["out_hdr"]):
                    c = E.codec.cspec[cname]
                    tq = (c["ns"], c.get("type_name") or cname)
                    found = [k for k in kids if k.tag == q(*tq)]
                    g = E.codec.decode_value(found[0], tq, {"k": "ref", "n": cname}) if found else None
                    r = values.value_eq(E.B, {"k": "ref", "n": cname}, g, e, path="out_header:" + cname)
                    if r:
                        fails.append(("C01|out-header|%s" % _diff_class({"k": "ref", "n": cname}, r),
                                      "%s: soap:Header differs: %s\nresponse: %s"
                                      % (cfg, r, out.out_bytes.decode("utf8", "replace")[:800])))
                        break
            got = E.decode_response(el)
            for i, (rt, g, e) in enumerate(zip(m["ret"], got, case["rets"])):
                r = values.value_eq(E.B, rt, g, e, path="ret%d" % i)
                if r:
                    fails.append(("C01|response|%s" % _diff_class(rt, r),
                                  "%s: response differs: %s\nresponse: %s"
                                  % (cfg, r, out.out_bytes.decode("utf8", "replace")[:800])))
                    break
        except Exception as e:
            fails.append(("C01|response-undecodable|%s" % type(e).__name__,
                          "%s: reference decoder cannot read the response: %r\nresponse: %s"
                          % (cfg, e, (out.out_bytes or b"").decode("utf8", "replace")[:800])))
    # the spyne client (wrapped calls, the style it supports): request -> server -> decoded reply
    if with_clients and m["style"] == "wrapped" and not fails and case.get("in_hdr") is None:
        E.rec.reset()
        native_args = [E.B.to_native(t, j) for (_, t), j in zip(m["args"], case["args"])]
        creq, cout, cres, cerr = drive.loopback_call(E.app, m["name"], native_args)
        if cerr is not None:
            et, where = F.exc_origin(cerr)
            fails.append(("C01|client-raises|%s|%s" % (et, where),
                          "%s: the spyne client raised %r for a conformant call\nrequest: %s"
                          % (cfg, cerr, (creq or b"")[:600])))
        else:
            if len(E.rec.calls) == 1:
                for (an, at), g, e in zip(m["args"], E.rec.calls[0][1], case["args"]):
                    r = values.value_eq(E.B, at, g, e, path=an)
                    if r:
                        fails.append(("C01|client-request|%s" % _diff_class(at, r),
                                      "%s: argument sent by the spyne client differs: %s\nrequest: %s"
                                      % (cfg, r, (creq or b"")[:800])))
                        break
            if len(m["ret"]) == 1:
                got_c = [cres]
            elif len(m["ret"]) == 0:
                got_c = []
            else:
                got_c = [getattr(cres, "%sResult%d" % (m["name"], i), None) for i in range(len(m["ret"]))]
            for i, (rt, g, e) in enumerate(zip(m["ret"], got_c, case["rets"])):
                r = values.value_eq(E.B, rt, g, e, path="ret%d" % i)
                if r:
                    fails.append(("C01|client-response|%s" % _diff_class(rt, r),
                                  "%s: the spyne client decodes the reply differently: %s\nresponse: %s"
                                  % (cfg, r, (cout.out_bytes or b"").decode("utf8", "replace")[:800])))
                    break
    nt = None
    has_arg = any(a is not None for a in case["args"])
    has_ret = any(r is not None for r in case["rets"])
    if case.get("in_hdr") is not None or case.get("out_hdr") is not None:
        labs = labs | {"soap_header"}
    if has_arg and has_ret and ((labs & INTERESTING) or any(x.startswith("ret:") and x[4:] in INTERESTING for x in labs)
                                or m["style"] != "wrapped" or len(m["ret"]) > 1):
        nt = {"labs": sorted(labs), "cfg": cfg, "style": m["style"], "nret": len(m["ret"]),
              "nargs": len(m["args"]), "variant": case["variant"]}
    rec.case(case, failures=fails, nontrivial=nt,
             classes=["cfg:" + cfg, "style:" + m["style"], "nret:%d" % len(m["ret"])]
             + ["val:" + x for x in labs])
    return fails


def _facet_of(err):
    for k in ("minInclusive", "maxInclusive", "pattern", "enumeration", "length", "maxLength",
              "minLength", "not expected", "Missing child", "not a valid value of the atomic type",
              "nillable", "is not allowed"):
        if k in err:
            return k.replace(" ", "_")
    return "other"


def _fault_class(f):
    code = getattr(f, "faultcode", "?")
    return str(code)


def _diff_class(t, r):
    """type of the differing leaf, read from the diff message (root-cause granularity)"""
    for name in sorted(spec.PRIM_KIND, key=len, reverse=True):
        if "expected %s " % name in r:
            return name
    for k in ("expected no items", "items, got", "elements, got", "expected None",
              "expected array", "object, got None", "expected instance", "enum member"):
        if k in r:
            return k.replace(" ", "_").replace(",", "")
    return "other"


# --------------------------------------------------------------------------- repeated member + default
_word = st.text(alphabet="abcxyz019", min_size=1, max_size=4)
_dfl_counter = [0]


def dfl_cases():
    return st.fixed_dictionaries({
        "dfl": st.just(True), "default": st.lists(_word, max_size=3),
        "reqs": st.lists(st.lists(_word, min_size=1, max_size=4), min_size=1, max_size=3),
        "prot": st.sampled_from(["xml", "soap11", "soap12"]),
        # (no "lxml": the schema writer cannot publish a list as an XSD default attribute and
        # raises while building the schema, which is outside this property)
        "validator": st.sampled_from([None, "soft"]),
        "mo": st.sampled_from(["unbounded", 5])})


def run_dfl(case, rec):
    """Bag.tags = Unicode(max_occurs>1, default=[...]); every request carries a non-empty list
    of tags: the function must see exactly that list, request after request, the reply must
    carry it back and the declared default must still be what was declared."""
    from spyne import Application, rpc, ServiceBase, ComplexModel, Unicode, Integer
    fails = []
    _dfl_counter[0] += 1
    tns = "urn:c01:dfl:%d" % _dfl_counter[0]
    declared = list(case["default"])
    mo = case["mo"]
    seen = []
    try:
        Bag = type("Bag", (ComplexModel,), {
            "__namespace__": tns,
            "_type_info": [("tags", Unicode(max_occurs=mo, default=list(declared))),
                           ("n", Integer)]})

        def m0(ctx, bag):
            seen.append(None if bag is None or bag.tags is None else list(bag.tags))
            return None if bag is None else bag.tags
        S = type("DflService", (ServiceBase,), {
            "m0": rpc(Bag, _returns=Unicode(max_occurs="unbounded"))(m0)})
        inp, outp = _protocols(case)
        app = Application([S], tns, in_protocol=inp, out_protocol=outp)
    except Exception as e:
        et, where = F.exc_origin(e)
        fails.append(("C01|build-raises|%s|%s" % (et, where), "building the dfl application raised %r" % (e,)))
        rec.case(case, failures=fails, classes=["build_error"])
        return fails
    env_ns = {"soap11": SOAP11, "soap12": SOAP12}.get(case["prot"])
    for i, tags in enumerate(case["reqs"]):
        body = etree.Element(q(tns, "m0"), nsmap={None: tns})
        bag = etree.SubElement(body, q(tns, "bag"))
        for t in tags:
            etree.SubElement(bag, q(tns, "tags")).text = t
        etree.SubElement(bag, q(tns, "n")).text = str(i)
        root = body
        if env_ns:
            root = etree.Element(q(env_ns, "Envelope"), nsmap={"e": env_ns})
            etree.SubElement(root, q(env_ns, "Body")).append(body)
        n0 = len(seen)
        out = drive.server_call(app, etree.tostring(root))
        ctx = "request %d of %d, tags=%r, declared default=%r, %s/%s" % (
            i + 1, len(case["reqs"]), tags, declared, case["prot"], case["validator"])
        if out.escaped is not None or out.fault is not None:
            fails.append(("C01|conformant-request-refused|dfl", "%s: %r" % (ctx, out.escaped or out.fault)))
            continue
        if seen[n0:] != [tags]:
            fails.append(("C01|args-differ|dfl", "%s: the function saw %r" % (ctx, seen[n0:])))
        try:
            rroot = etree.fromstring(out.out_bytes)
            if env_ns:
                rroot = rroot.find(q(env_ns, "Body"))
            got = [el.text or "" for el in rroot.iter() if isinstance(el.tag, str) and len(el) == 0
                   and el is not rroot]
        except Exception as e:
            got = "unparseable: %r" % (e,)
        if got != tags:
            fails.append(("C01|response-differs|dfl", "%s: the reply carries %r\n%s"
                          % (ctx, got, (out.out_bytes or b"")[:400])))
    now = Bag._type_info["tags"].Attributes.default
    if now != declared:
        fails.append(("C01|default-mutated|dfl", "after %r the declared default %r reads %r"
                      % (case["reqs"], declared, now)))
    nt = None
    if len(case["reqs"]) > 1 or declared:
        nt = ["dfl", len(declared), len(case["reqs"]), case["prot"], case["validator"], str(mo),
              [len(r) for r in case["reqs"]]]
    rec.case(case, failures=fails, nontrivial=nt, classes=["dfl"])
    return fails


def shards(tier):
    n = 600 if tier == "quick" else 12000
    return [{"kind": "hyp", "i": i, "n": n} for i in range(16)] + \
        [{"kind": "dfl", "i": 0, "n": 200 if tier == "quick" else 4000}]


def run_shard(shard, rec):
    if shard["kind"] == "dfl":
        rec.hyp(dfl_cases(), lambda case: run_dfl(case, rec), shard["n"])
        return
    rec.hyp(cases(rec.tier), lambda case: run_case(case, rec), shard["n"])


class _NullRec(object):
    tier = "quick"

    def case(self, *a, **k):
        pass


def replay(case):
    if case.get("dfl"):
        return run_dfl(case, _NullRec())
    return run_case(case, _NullRec())
