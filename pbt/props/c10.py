"""C10 — Hostile or malformed requests end in a client fault, never a crash.

case = (valid request of the C01 / C02 / C03 generators, list of mutations)
  prefix : EVERY prefix truncation of the valid request (exhaustive per request)
  bytes  : byte-level edits (flip, delete, insert, duplicate a slice) + pure random bytes
  struct : structure-aware mutations: leaf text replaced by type-specific nasties (month 13,
           24:61, 1e999999, 10^5 digits, bad base64/hex, lone surrogate escapes, empty,
           whitespace, NUL), element/key deletion, duplication, unknown members, wrong kinds,
           wrong nesting, empty SOAP body / envelope / header, wrong envelope namespace,
           href/id multiref cycles, msgpack-rpc arity and type errors
through the server pipeline (all) and through WsgiApplication (a slice, with Content-Type and
charset variations).
Oracle: no exception escapes any pipeline stage or the WSGI callable / iterator; the reply is
a normal response or a fault document of the output protocol whose code is in the Client
family (HTTP 4xx for non-SOAP protocols, 500 for SOAP); never a Server fault (the user
functions never raise); no user function ran when the reply is a fault; a function that runs
gets exactly as many arguments as it declares.
"""
import copy
import json

import msgpack
import yaml
from hypothesis import strategies as st
from lxml import etree

from .. import build, drive, ref_dict, ref_flat, ref_xml
from .. import findings as F
from . import c01, c02, c03, c04, c09

PROPERTY = "C10"
RULE = ("cases = generated valid requests (C01/C02/C03 generators) x {every prefix truncation; "
        "byte edits and random bytes; structure-aware mutations with type-specific nasty leaf "
        "values, deletions, duplications, unknown members, wrong kinds/nesting, broken envelopes, "
        "multiref cycles, msgpack-rpc arity/type errors} for XmlDocument/Soap11/Soap12 x "
        "validator None/soft/lxml, JSON/YAML/MessagePack/msgpack-rpc x None/soft, HttpRpc x "
        "None/soft, through the pipeline and WsgiApplication. Oracle: nothing escapes, reply is "
        "normal or a Client-family fault, no function ran on a fault. Non-trivial = the input "
        "parses far enough that the method is resolved (reaches the deserialiser); distinct = "
        "(family, validator, mutation kind, outcome class)")
ASSUMPTIONS = [
    "user functions of this check never raise, so a Server fault is attributable to the request",
    "coverage-guided byte fuzzing (atheris) is an optional extra stage of the thorough tier; the "
    "saved input is the reproducible unit there",
]
MAXTASKSPERCHILD = 4

XML_NASTY = ["", " ", "abc", "2020-13-01", "2020-01-01T24:61:00", "24:61", "1e999999", "9" * 100000,
             "-", "+", ".", "NaN", "INF", "####", "QUJD=", "QUJ", "zz", "0x", " ", "１２",
             "P", "PT", "P1Y", "-P", "true ", "TRUE", "nil", "00000000-0000-0000-0000-00000000000",
             "\t\n", "<", "]]>", "퟿", "a" * 70000,
             # range edges of the native types behind the lexical spaces
             "P99999999999Y", "P1Y99999999999M", "-P999999999999D", "PT1e5S", "PT99999999999999999999S",
             "99999-01-01", "0000-01-01", "-0001-01-01", "10000-01-01T00:00:00Z",
             "9999-12-31T23:59:59.9999999Z", "0001-01-01T00:00:00+14:00", "9999-12-31T23:59:59-14:00",
             "2020-01-01T00:00:00+99:99", "24:00:00", "23:59:60", "23:59:59.9999999", "2020/13/45",
             "31.02.2020 10:00", "1e400", "-1e400", "1" + "0" * 400, "0." + "0" * 400 + "1",
             "2023-02-30+01:00", "2023-13-01Z", "2023-02-30Z", "0000-00-00Z", "2023-02-29",
             "9999-12-31T24:00:00", "9999-12-31T24:00:00Z", "9999-12-31T23:59:59.9999995",
             "2020-01-01T00:00:00-00:30", "t:x:Item", "::"]
DOC_NASTY = ["", " ", "abc", "2020-13-01", "24:61", "1e999999", "9" * 5000, 1e308, -1e308, 2 ** 70,
             -2 ** 70, 1.5, True, False, None, [], {}, [[]], {"": None}, "\x00", "\ud800",
             "QUJD=", "zz", "P", 0, -1, [None], {"a": {"a": {"a": {}}}}, "0" * 70000,
             b"\xff", b"\xc3", b"\xed\xa0\x80", b"",
             "P99999999999Y", "-P999999999999D", "PT99999999999999999999S", "99999-01-01", "0000-01-01",
             "10000-01-01T00:00:00Z", "9999-12-31T23:59:59.9999999Z", "0001-01-01T00:00:00+14:00",
             "9999-12-31T23:59:59-14:00", "24:00:00", "23:59:60", "2020/13/45", "1e400", 2.0, 1e20,
             10 ** 400, -10 ** 400, float("inf"), float("nan"),
             "2023-02-30+01:00", "2023-13-01Z", "9999-12-31T24:00:00", "9999-12-31T23:59:59.9999995"]


NAME_NASTY = ["m\x000", "m0\x1f", "\ufffe", "m0\ud800", "", " ", "m0 ", "<m0>", "m0&", "{urn:x}m0", "m" * 5000,
              "\u202em0", "m0\n", "%s", "%(x)s", "{0}", "\\"]
SWEEP = 6        # nasty literals per leaf in the systematic part of a struct case
ALWAYS = ["c3\u00e9a", "\u00c0\u00c1", "-0"]     # ... plus these for every leaf (non-ASCII text where
#                                                  ASCII-only lexical spaces are expected)

XSI_TYPE_NASTY = ["t:x:Item", "::", ":", "a:", ":b", "xs:string:x", "", " ", "{urn:x}y", "x" * 5000,
                  "xs:", "nope:string", "xsi:type", "a b", "\u00e9:\u00e9"]


def cases(tier):
    mut = st.lists(st.tuples(st.integers(0, 10 ** 6), st.integers(0, 10 ** 6), st.integers(0, 10 ** 6)),
                   min_size=6, max_size=30)

    def tag(fam):
        return lambda t: {"fam": fam, "base": t[0], "muts": [list(x) for x in t[1]],
                          "part": t[2], "wsgi": t[3],
                          # struct cases only: date/time types take a custom strptime format
                          "fmt": t[2] == "struct" and t[1][0][0] % 5 == 0,
                          # dict / http input with an XML-family OUTPUT protocol (mixed protocols)
                          "xout": fam in ("dict", "http") and t[1][0][1] % 3 == 0 and
                          ("xml", "soap11")[t[1][0][1] % 2]}
    parts = st.sampled_from(["prefix", "bytes", "struct", "struct", "struct"])
    return st.one_of(
        st.tuples(c01.cases(tier), mut, parts, st.booleans()).map(tag("xml")),
        st.tuples(c01.cases(tier), mut, parts, st.booleans()).map(tag("xml")),
        st.tuples(c02.cases(tier), mut, parts, st.booleans()).map(tag("dict")),
        st.tuples(c02.cases(tier), mut, parts, st.booleans()).map(tag("dict")),
        st.tuples(c03.cases(tier), mut, parts, st.just(True)).map(tag("http")))


FORMATS = {"Date": "%Y/%m/%d", "DateTime": "%d.%m.%Y %H:%M", "Time": "%H-%M"}


def with_formats(base):
    """copy of the base case in which every Date/DateTime/Time type carries a custom
    (strptime) format; the 'valid' request then is just a starting point, not valid"""
    base = copy.deepcopy(base)

    def walk(t):
        if not isinstance(t, dict):
            return
        if t.get("k") == "prim" and t.get("t") in FORMATS:
            t.setdefault("f", {})["format"] = FORMATS[t["t"]]
        if "of" in t:
            walk(t["of"])
    for c in base["U"]["classes"]:
        for _, t in c["fields"]:
            walk(t)
    for _, t in base["m"]["args"]:
        walk(t)
    return base


# ---------------------------------------------------------------- environments
class Target(object):
    """one application + how to send a request to it and judge the reply"""

    def __init__(self, case):
        from spyne.server.wsgi import WsgiApplication
        self.case = case
        fam, base = case["fam"], case["base"]
        if case.get("fmt"):
            base = with_formats(base)
        self.fam = fam
        if fam == "xml":
            self.E = c01.Env(base)
            self.B, self.R, self.app = self.E.B, self.E.rec, self.E.app
            self.prot = base["prot"]
            self.valid = etree.tostring(self.E.wrap(self.E.request_element()))
            self.ct = "application/soap+xml; charset=utf-8" if self.prot == "soap12" else "text/xml; charset=utf-8"
        elif fam == "dict":
            m = base["m"]
            self.B = build.Built(base["U"])
            self.R = build.Recorder()
            svc = build.make_service(self.B, "Svc", [m], self.R)
            inp, outp = c02._protocols(base)
            if case.get("xout"):
                outp = c09._protocols(case["xout"])[1]
            self.app = build.make_app([svc], base["U"]["tns"], inp, outp)
            rets = [self.B.to_native(t, j) for t, j in zip(m["ret"], base["rets"])]
            self.R.script[m["name"]] = (lambda ctx, a: None) if not rets else \
                ((lambda ctx, a: rets[0]) if len(rets) == 1 else (lambda ctx, a: tuple(rets)))
            self.prot = base["prot"]
            C = ref_dict.Codec(base["U"], ref_dict.Cfg(
                "msgpack" if self.prot.startswith("msgpack") else self.prot, wrappers=base["wrappers"],
                complex_as=base["complex_as"], str_keys=base["str_keys"]))
            self.doc = C.request(m, base["args"], rpc=self.prot == "msgpackrpc")
            self.valid = c02.dumps(base, self.doc)
            self.ct = {"json": "application/json", "yaml": "text/yaml"}.get(self.prot, "application/x-msgpack")
        else:
            from spyne.protocol.http import HttpRpc
            U, m = base["U"], base["m"]
            self.B = build.Built(U)
            self.R = build.Recorder()
            svc = build.make_service(self.B, "Svc", [m], self.R)
            self.app = build.make_app([svc], U["tns"], HttpRpc(validator=base["validator"],
                                                              hier_delim=base["delim"],
                                                              strict_arrays=base["strict"]),
                                      c09._protocols(case["xout"])[1] if case.get("xout") else HttpRpc())
            rets = [self.B.to_native(t, j) for t, j in zip(m["ret"], base["rets"])]
            self.R.script[m["name"]] = (lambda ctx, a: rets[0]) if rets else (lambda ctx, a: None)
            self.prot = "http"
            self.pairs = ref_flat.Flat(U, base["delim"]).request_pairs(m, base["args"])
            self.valid = ref_flat.query_string(self.pairs).encode("ascii")
            self.ct = None
        self.m = base["m"]
        self.wsgi = WsgiApplication(self.app) if (case.get("wsgi") or fam == "http") else None
        self.soap = (case.get("xout") or self.prot) in ("soap11", "soap12")

    def send(self, data, ct_variant=0):
        """-> (escaped exc|None, fault code|None, calls, status|None, reply bytes)"""
        self.R.reset()
        if self.fam == "http":
            path = "/m0"
            if isinstance(data, tuple):
                path, data = data
            qs = data.decode("latin1") if isinstance(data, bytes) else data
            res = drive.wsgi_call(self.wsgi, drive.environ("GET", path, qs, content_type=None,
                                                           content_length=None))
            return self._wsgi_result(res)
        if self.wsgi is not None:
            cts = [self.ct, self.ct.split(";")[0], self.ct.split(";")[0] + "; charset=latin-1",
                   "application/octet-stream", None, self.ct.split(";")[0] + "; charset=utf-16",
                   self.ct.split(";")[0] + "; charset=bogus", self.ct.split(";")[0] + "; charset=",
                   "multipart", "multipart-noid", self.ct.split(";")[0] + "; charset=\"utf-8",
                   "multipart/related", ";;;", self.ct.split(";")[0] + "; boundary"]
            ct = cts[ct_variant % len(cts)] if ct_variant else self.ct
            if ct in ("multipart", "multipart-noid"):
                # SOAP with attachments: the request as the root part + one attachment
                att = (b"Content-Type: application/octet-stream\r\n" +
                       (b"" if ct == "multipart-noid" else b"Content-ID: <att1>\r\n") +
                       b"\r\nabc")
                data = (b"--bnd\r\nContent-Type: text/xml\r\nContent-ID: <root>\r\n\r\n" + data +
                        b"\r\n--bnd\r\n" + att + b"\r\n--bnd--\r\n")
                ct = 'multipart/related; boundary=bnd; type="text/xml"; start="<root>"' + \
                     ("; charset=bogus" if ct_variant % 2 else "")
            res = drive.wsgi_call(self.wsgi, drive.environ("POST", "/", "", data, content_type=ct))
            return self._wsgi_result(res)
        out = drive.server_call(self.app, data)
        if out.escaped is not None:
            return out.escaped[0], None, list(self.R.calls), None, b""
        code = None if out.fault is None else str(getattr(out.fault, "faultcode", "?"))
        return None, code, list(self.R.calls), None, out.out_bytes or b""

    def _wsgi_result(self, res):
        if res.escaped is not None:
            return res.escaped, None, list(self.R.calls), None, b""
        try:
            body = b"".join(c if isinstance(c, bytes) else str(c).encode("utf8") for c in res.chunks)
        except Exception:
            body = b""
        status = (res.status or "")[:3]
        code = None
        if not status.startswith("2"):
            try:
                oprot = self.case.get("xout") or ("http" if self.fam == "http" else self.prot)
                code = c09.decode_fault(oprot, body)[0]
            except Exception:
                code = "undecodable"
        return None, code, list(self.R.calls), status, body


# ---------------------------------------------------------------- mutators
def byte_mutants(valid, muts):
    out = []
    n = max(1, len(valid))
    for a, b, c in muts:
        k = c % 6
        i = a % n
        if k == 0:
            out.append(("flip", valid[:i] + bytes([valid[i] ^ (1 << (b % 8))]) + valid[i + 1:] if valid else b""))
        elif k == 1:
            out.append(("delete", valid[:i] + valid[i + 1 + b % 9:]))
        elif k == 2:
            out.append(("insert", valid[:i] + bytes([b % 256]) * (1 + b % 3) + valid[i:]))
        elif k == 3:
            j = min(n, i + 1 + b % 40)
            out.append(("dup-slice", valid[:j] + valid[i:j] + valid[j:]))
        elif k == 4:
            out.append(("random", bytes((a * (x + 7) + b * x * x + c) % 256 for x in range(b % 64))))
        else:
            out.append(("swap-halves", valid[i:] + valid[:i]))
    return out


def xml_struct_mutants(T, muts):
    out = []
    base = etree.fromstring(T.valid)
    for a, b, c in muts:
        doc = copy.deepcopy(base)
        els = [e for e in doc.iter() if isinstance(e.tag, str)]
        el = els[a % len(els)]
        k = c % 12
        try:
            if k == 0:
                leaves = [e for e in els if len(e) == 0]
                (leaves[a % len(leaves)] if leaves else el).text = _xmltext(XML_NASTY[b % len(XML_NASTY)])
                kind = "leaf-nasty"
            elif k == 1:
                if el.getparent() is not None:
                    el.getparent().remove(el)
                kind = "delete-element"
            elif k == 2:
                if el.getparent() is not None:
                    el.getparent().insert(el.getparent().index(el), copy.deepcopy(el))
                kind = "duplicate-element"
            elif k == 3:
                etree.SubElement(el, "{%s}unknown%d" % (etree.QName(el).namespace or "urn:x", b % 3)).text = "x"
                kind = "unknown-member"
            elif k == 4:
                for ch in list(el):
                    el.remove(ch)
                el.text = XML_NASTY[b % 8] or None
                kind = "children-to-text"
            elif k == 5:
                inner = copy.deepcopy(el)
                el.append(inner)
                kind = "self-nesting"
            elif k == 6:
                el.tag = "{urn:wrong:namespace}%s" % etree.QName(el).localname
                kind = "wrong-namespace"
            elif k == 7:
                if el.attrib:
                    key = sorted(el.attrib)[b % len(el.attrib)]
                    el.set(key, _xmltext(XML_NASTY[b % len(XML_NASTY)]) or "")
                else:
                    el.set("bogus", "1")
                kind = "attribute-nasty"
            elif k == 8 and b % 3 == 0:
                el.set("{%s}type" % ref_xml.XSI, XSI_TYPE_NASTY[(b // 3) % len(XSI_TYPE_NASTY)])
                kind = "xsi-type-nasty"
            elif k == 8:
                el.set("{%s}nil" % ref_xml.XSI, ["true", "1", "maybe", ""][b % 4])
                kind = "nil-on-value"
            elif k == 9:
                # href/id multi-references: self-referencing, resolving to another element,
                # or dangling while some other element does carry an id
                el.set("href", "#x%d" % (b % 3))
                els[(a + 1 + b % 5) % len(els)].set("id", "x%d" % (b // 3 % 3))
                kind = "multiref"
            elif k == 10 and b % 3 == 0:
                # comments and processing instructions between the children (kept by the parser
                # when the protocol was built with remove_pis=False)
                el.insert(b % (len(el) + 1), etree.ProcessingInstruction("pi", "x=1"))
                el.insert(0, etree.Comment("c"))
                kind = "pi-and-comment"
            elif k == 10:
                el.text = None
                for ch in list(el):
                    el.remove(ch)
                kind = "empty-element"
            else:
                el.tail = XML_NASTY[b % 8]
                kind = "tail-text"
            out.append((kind, etree.tostring(doc)))
        except Exception:
            continue
    # systematic part: every leaf (up to 12) gets a window of the nasty list that rotates with
    # the case, so that each (leaf type, nasty literal) pair is met many times per tier
    off = (muts[0][1] if muts else 0) % len(XML_NASTY)
    window = [XML_NASTY[(off + j) % len(XML_NASTY)] for j in range(SWEEP)] + ALWAYS
    nleaves = len([e for e in base.iter() if isinstance(e.tag, str) and len(e) == 0])
    for li in range(min(nleaves, 12)):
        for nasty in window:
            if len(nasty) > 2000:
                continue
            doc = copy.deepcopy(base)
            leaf = [e for e in doc.iter() if isinstance(e.tag, str) and len(e) == 0][li]
            try:
                leaf.text = _xmltext(nasty)
                out.append(("leaf-sweep", etree.tostring(doc)))
            except Exception:
                continue
    if T.soap:
        ns = c01.SOAP11 if T.prot == "soap11" else c01.SOAP12
        other = c01.SOAP12 if T.prot == "soap11" else c01.SOAP11
        out.append(("empty-body", ('<e:Envelope xmlns:e="%s"><e:Body/></e:Envelope>' % ns).encode()))
        out.append(("empty-envelope", ('<e:Envelope xmlns:e="%s"/>' % ns).encode()))
        out.append(("no-body", ('<e:Envelope xmlns:e="%s"><e:Header/></e:Envelope>' % ns).encode()))
        out.append(("wrong-envelope-ns", T.valid.replace(ns.encode(), other.encode())))
        out.append(("two-body-children", T.valid.replace(b"</%s:Body>" % b"soapenv", b"<x/></soapenv:Body>")))
        out.append(("header-garbage", T.valid.replace(b"<soapenv:Body>", b"<soapenv:Header><a><b/></a></soapenv:Header><soapenv:Body>")))
        out.append(("fault-as-request", ('<e:Envelope xmlns:e="%s"><e:Body><e:Fault><faultcode>x</faultcode>'
                                        '</e:Fault></e:Body></e:Envelope>' % ns).encode()))
    else:
        out.append(("bare-text-root", b"<a>text</a>"))
        out.append(("only-declaration", b"<?xml version='1.0'?>"))
    return out


def _xmltext(s):
    try:
        etree.Element("a").text = s
        return s
    except ValueError:
        return "x"


def dict_struct_mutants(T, muts):
    out = []
    doc = T.doc
    paths = [p for p in c04._paths(doc)]
    for a, b, c in muts:
        d2 = copy.deepcopy(doc)
        p = paths[a % len(paths)]
        k = c % 8
        try:
            if len(p) == 0:
                d2 = copy.deepcopy(DOC_NASTY[b % len(DOC_NASTY)])
                kind = "root-replaced"
            elif k in (0, 1, 2):
                c04._set(d2, p, copy.deepcopy(DOC_NASTY[b % len(DOC_NASTY)]))
                kind = "node-nasty"
            elif k == 3:
                parent = c04._get(d2, p[:-1])
                if isinstance(parent, dict):
                    del parent[p[-1]]
                else:
                    parent.pop(p[-1])
                kind = "delete-node"
            elif k == 4:
                parent = c04._get(d2, p[:-1])
                if isinstance(parent, dict):
                    parent["unknown_%d" % (b % 3)] = DOC_NASTY[b % len(DOC_NASTY)]
                else:
                    parent.append(copy.deepcopy(parent[p[-1]]))
                kind = "unknown-or-extra"
            elif k == 5:
                c04._set(d2, p, {"x": copy.deepcopy(c04._get(d2, p))})
                kind = "wrap-in-map"
            elif k == 6:
                c04._set(d2, p, [copy.deepcopy(c04._get(d2, p))] * (1 + b % 3))
                kind = "wrap-in-list"
            elif k == 7 and b % 2 and isinstance(d2, dict) and len(d2) == 1:
                # the method name itself: control characters, noncharacters, lone surrogates
                (k0, v0), = d2.items()
                d2 = {NAME_NASTY[(b // 2) % len(NAME_NASTY)]: v0}
                kind = "method-name-nasty"
            else:
                if isinstance(d2, dict):
                    d2["second_method"] = {}
                elif isinstance(d2, list):
                    d2 = d2[:b % 6] + [DOC_NASTY[b % len(DOC_NASTY)]] * (b % 3)
                kind = "envelope-shape"
            body = c02.dumps(T.case["base"], d2)
        except Exception:
            continue
        out.append((kind, body))
    off = (muts[0][1] if muts else 0) % len(DOC_NASTY)
    window = [DOC_NASTY[(off + j) % len(DOC_NASTY)] for j in range(SWEEP)] + [b"\xff\xfe", "c3\u00e9a"]
    leafp = [p for p in paths if len(p) and not isinstance(c04._get(doc, p), (dict, list))][:10]
    for p in leafp:
        for nasty in window:
            if isinstance(nasty, str) and len(nasty) > 2000:
                continue
            d2 = copy.deepcopy(doc)
            try:
                c04._set(d2, p, copy.deepcopy(nasty))
                out.append(("leaf-sweep", c02.dumps(T.case["base"], d2)))
            except Exception:
                continue
    if T.prot == "json":
        out += [("json-lone-surrogate", b'{"m0": {"a": "\\ud800"}}'), ("json-huge-number", b'{"m0": {"a": 1' + b"0" * 400 + b"}}"),
                ("json-deep", b"[" * 3000 + b"]" * 3000), ("json-dup-keys", b'{"m0": {}, "m0": {}}'),
                ("json-nan", b'{"m0": {"a": NaN}}'), ("json-bom", b"\xef\xbb\xbf" + T.valid),
                ("json-utf16", T.valid.decode("utf8").encode("utf-16")), ("json-empty", b""),
                ("json-scalar", b"5"), ("json-null", b"null")]
    elif T.prot == "yaml":
        out += [("yaml-anchor-bomb", b"a: &a [x,x]\nb: &b [*a,*a]\nc: &c [*b,*b]\nm0: {a: *c}\n"),
                ("yaml-tag", b"m0: !!python/object/apply:os.system ['true']\n"), ("yaml-empty", b""),
                ("yaml-tab", b"m0:\n\t a: 1\n"), ("yaml-multi-doc", b"m0: {}\n---\nm0: {}\n"),
                ("yaml-scalar", b"just text"), ("yaml-bin-tag", b"m0: {a: !!binary 'QUJD'}\n"),
                ("yaml-timestamp", b"m0: {a: 2001-12-14t21:59:43.10-05:00}\n"), ("yaml-set", b"m0: !!set {a, b}\n")]
    else:
        out += [("msgpack-empty", b""), ("msgpack-truncated-map", b"\x81"), ("msgpack-ext", b"\xc7\x01\x05a"),
                ("msgpack-scalar", b"\x05"), ("msgpack-nil", b"\xc0"), ("msgpack-trailing", T.valid + b"\x01"),
                ("msgpack-int-key", msgpack.packb({1: {}})), ("msgpack-nested-key", b"\x81\x81\xa1a\x01\x01"),
                ("msgpack-rpc-short", msgpack.packb([0, 1])), ("msgpack-rpc-long", msgpack.packb([0, 1, "m0", [], 5])),
                ("msgpack-rpc-notify", msgpack.packb([2, "m0", []])), ("msgpack-rpc-name-int", msgpack.packb([0, 1, 5, []])),
                ("msgpack-rpc-params-map", msgpack.packb([0, 1, "m0", {"a": 1}])),
                ("msgpack-rpc-params-scalar", msgpack.packb([0, 1, "m0", 5])),
                ("msgpack-rpc-type-str", msgpack.packb(["0", 1, "m0", []])),
                ("msgpack-rpc-error-dict", msgpack.packb([0, 1, {"faultcode": "x"}, []]))]
    return out


def http_struct_mutants(T, muts):
    out = []
    pairs = T.pairs or [("a", "1")]
    d = T.case["base"]["delim"]
    for a, b, c in muts:
        ps = list(pairs)
        i = a % len(ps)
        k, v = ps[i]
        kk = c % 9
        nasty = XML_NASTY[b % len(XML_NASTY)][:2000]
        try:
            nasty.encode("utf8")
        except UnicodeEncodeError:
            nasty = "x"
        if kk == 0:
            ps[i] = (k, nasty); kind = "value-nasty"
        elif kk == 1:
            idx = ["%d" % (b % 30), "1" * 5000, "-1", "1e3", "0x1", "１", "", "0" * 30 + "1"][b % 8]
            ps[i] = (k + "[%s]" % idx, v); kind = "index-on-scalar"
        elif kk == 2:
            ps[i] = (k.replace("[", ("[9", "[-", "[" + "7" * 4400, "[0")[b % 4]), v); kind = "index-mangled"
        elif kk == 3 and b % 2:
            # every index shifted up: the lowest index is no longer 0 (strict and lenient modes)
            import re as _re
            sh = 1 + b % 7
            ps = [(_re.sub(r"\[(\d+)\]", lambda mo: "[%d]" % (int(mo.group(1)) + sh), kx), vx) for kx, vx in ps]
            kind = "index-shift"
        elif kk == 3:
            ps[i] = (k + d + "x", v); kind = "deeper-path"
        elif kk == 4:
            ps[i] = (k.split(d)[0], v); kind = "shallower-path"
        elif kk == 5:
            ps = ps + [ps[i]] * (1 + b % 4); kind = "repeat"
        elif kk == 6:
            ps[i] = (k + "[", v); kind = "broken-bracket"
        elif kk == 7:
            ps[i] = ("", v); kind = "empty-key"
        else:
            ps[i] = (k, "empty"); kind = "empty-marker"
        out.append((kind, ref_flat.query_string(ps).encode("ascii")))
    off = (muts[0][1] if muts else 0) % len(XML_NASTY)
    for i in range(min(len(pairs), 10)):
        for j in range(SWEEP + len(ALWAYS)):
            nasty = (XML_NASTY[(off + j) % len(XML_NASTY)] if j < SWEEP else ALWAYS[j - SWEEP])[:2000]
            try:
                nasty.encode("utf8")
            except UnicodeEncodeError:
                continue
            ps = list(pairs)
            ps[i] = (ps[i][0], nasty)
            out.append(("leaf-sweep", ref_flat.query_string(ps).encode("ascii")))
    out += [("raw-percent", b"a=%zz&b=%"), ("no-equals", b"abc"), ("only-amp", b"&&&;;"), ("bad-utf8", b"a=%ff%fe"),
            ("plus", b"a=+&b=1+2"), ("long-key", b"a" * 5000 + b"=1")]
    # the method name comes from the URL path
    for nm in ("/m\x000", "/m0\x1f", "/m0\xff\xfe", "/", "", "/m0/", "//m0", "/M0", "/m0%00", "/" + "m" * 5000):
        out.append(("path-nasty", (nm, T.valid)))
    return out


# ---------------------------------------------------------------- verdict
def judge(T, kind, data, res, fails, labels, rec):
    escaped, code, calls, status, body = res
    fam = T.fam if T.fam != "xml" else ("soap" if T.soap else "xml")
    val = T.case["base"].get("validator")
    where = "%s/%s/%s" % (T.prot, val, "wsgi" if T.wsgi is not None else "pipeline")
    shown = data[:400] if isinstance(data, (bytes, str)) else data
    if escaped is not None:
        et, origin = F.exc_origin(escaped)
        fails.append(("C10|escaped|%s|%s|%s" % (et, origin, fam),
                      "%s: %r escaped for a %s request: %r" % (where, escaped, kind, shown)))
        labels.add((kind, "escaped"))
        return
    m = T.m
    for name, args, hdr in calls:
        if len(args) != len(m["args"]):
            fails.append(("C10|function-ran-with-wrong-arity|%s" % fam,
                          "%s: the function declared with %d arguments was called with %d for a %s "
                          "request: %r" % (where, len(m["args"]), len(args), kind, shown)))
    if code is None:
        labels.add((kind, "accepted" if calls else "normal-no-call"))
        return
    if calls:
        fails.append(("C10|function-ran-but-fault|%s|%s" % (fam, code.split(".")[0]),
                      "%s: the user function ran although the request was answered with fault %s "
                      "(%s request): %r" % (where, code, kind, shown)))
    if not (code == "Client" or code.startswith("Client.")):
        fails.append(("C10|non-client-fault|%s|%s" % (fam, code.split(".")[0][:20]),
                      "%s: a %s request was answered with fault code %r (reply %r): %r"
                      % (where, kind, code, body[:200], shown)))
    if status is not None and (code == "Client" or code.startswith("Client.")):
        want4 = not T.soap
        if want4 and not status.startswith("4"):
            fails.append(("C10|http-status|%s|%s" % (fam, status),
                          "%s: client fault %s sent with HTTP %s" % (where, code, status)))
        if not want4 and status not in ("500", "405"):     # 405: documented for non-POST SOAP
            fails.append(("C10|http-status|%s|%s" % (fam, status),
                          "%s: SOAP fault %s sent with HTTP %s" % (where, code, status)))
    labels.add((kind, "fault:" + ".".join(code.split(".")[:2])))


def run_case(case, rec):
    fails = []
    try:
        T = Target(case)
    except Exception:
        rec.case(case, classes=["build-skip"])
        return fails
    # the unmutated request must be accepted (otherwise this is not a C10 base)
    base_res = T.send(T.valid)
    if case.get("fmt"):
        rec.count("custom-format-cases")
    elif base_res[0] is not None or base_res[1] is not None or not base_res[2]:
        rec.case(case, classes=["base-not-accepted:" + T.fam])
        return fails
    part = case["part"]
    labels = set()
    if part == "prefix":
        step = 1
        n = len(T.valid)
        if n > 4096:
            step = n // 4096 + 1
        for i in range(0, n, step):
            judge(T, "prefix", T.valid[:i], T.send(T.valid[:i]), fails, labels, rec)
        rec.count("prefixes", n // step)
        mutants = []
    elif part == "bytes":
        mutants = byte_mutants(T.valid, case["muts"])
    else:
        mutants = {"xml": xml_struct_mutants, "dict": dict_struct_mutants,
                   "http": http_struct_mutants}[T.fam](T, case["muts"])
    for i, (kind, data) in enumerate(mutants):
        judge(T, kind, data, T.send(data, ct_variant=(i % 15 if case.get("wsgi") else 0)), fails, labels, rec)
    rec.count("requests:" + T.fam, len(mutants))
    reached = [l for l in labels if not l[1].endswith(("XMLSyntaxError", "JsonDecodeError", "YamlDecodeError",
                                                        "MessagePackDecodeError"))]
    for lab in labels:
        deep = lab in reached
        rec.case(case, nontrivial=({"fam": T.fam, "prot": T.prot, "val": case["base"].get("validator"),
                                    "part": part, "lab": list(lab)} if deep else None),
                 classes=["%s:%s:%s" % (part, lab[0], lab[1].split(":")[0]),
                          "reached-deserialiser:%s" % deep])
    rec.case(case, failures=fails, classes=["fam:" + T.fam, "part:" + part])
    return fails


def shards(tier):
    n = 400 if tier == "quick" else 6000
    return [{"kind": "hyp", "i": i, "n": n} for i in range(16)]


def run_shard(shard, rec):
    rec.hyp(cases(rec.tier), lambda case: run_case(case, rec), shard["n"])


class _NullRec(object):
    tier = "quick"

    def case(self, *a, **k):
        pass

    def count(self, *a, **k):
        pass


def replay(case):
    return run_case(case, _NullRec())
