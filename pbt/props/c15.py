"""C15 — Deriving a model never changes another model; field order is deterministic.

case = {"steps": [op, ...]}     a *history* of 4-30 derivation / evolution operations, pure JSON.

The history is interpreted by `Machine` against a pool of live spyne models.  Every class
that becomes reachable from the pool (the pooled models, the field types that child_attrs /
Array / Mandatory create implicitly, the global primitive roots and ComplexModel / Array /
Iterable themselves) is a *node* of a reference model made of plain dicts:

    node.attrs    every public value of cls.Attributes (+ Annotations.doc/appinfo)
    node.fields   ordered own fields  [(name, node id of the field type)]
    node.extends  node id of the parent class
    verdicts      a reference validator (nillable / length / pattern / values / ranges)
                  evaluated on a fixed probe set

A step updates the reference by the *documented* effect of the operation (new type = source
+ requested changes; append_field / insert_field reach the class and all its customized
variants) and then EVERY node is compared with its live class: the new nodes must equal the
prediction (`derived-wrong`), every other node must be unchanged (`aliasing`).  Comparison is
by value and structural, never by object identity.  At the end of a history every pooled
complex model is rendered into an XML schema and serialized through XmlDocument and the dict
protocol (field order, occurrence constraints), and (sampled in quick, always in thorough)
the history is replayed in fresh interpreters under three PYTHONHASHSEED values.

Signatures
  C15|aliasing|<op>|<attr | fields | extends | verdict | type_name | namespace>|<bystander>
        bystander = source (an operand or a type it is built of) / sibling-derivative /
        referrer / component-derivative / unrelated / variant-of-related-class (append/insert:
        a customized variant of a class that is only related by inheritance got the field)
  C15|derived-wrong|<op>|<attr | fields | extends | verdict | type_name | identity>
  C15|propagation-missing|<op>      a class customized from the target did not get the field
  C15|field-order|<type_info | flat | flat-content | schema | xml | dict | ...-content>
  C15|schema-mismatch|<fields | minOccurs | maxOccurs | nillable | base>
  C15|hashseed|<models | field-order-own | -flat | -xml | -dict | schema>
  C15|escaped|<ExcType>|<file:function>|<op>
"""
import datetime as dtm
import decimal
import hashlib
import json
import os
import re
import subprocess
import sys
import tempfile

from hypothesis import strategies as st

from .. import env, jv
from .. import findings as F

PROPERTY = "C15"
RULE = ("case = history of 4-30 operations (primitive customisation with generated facets, "
        "customize(**attrs) incl. prot= / protocol= / p= with instances of user-written protocol "
        "classes that declare class-level type_attrs, child_attrs / child_attrs_all (incl. inherited and not-yet-existing "
        "fields), Array / Iterable / Array(wrapped=False) / customize(max_occurs), Mandatory, new "
        "class, subclass, append_field / insert_field) drawn as one JSON value by Hypothesis, plus "
        "the exhaustive enumeration of all 2-step (thorough: 3-step) continuations of a base+"
        "subclass pair over a 24-operation alphabet; operands refer to "
        "earlier pool entries by index (modulo the eligible entries). After EVERY step every class "
        "reachable from the pool is snapshotted (public Attributes, ordered fields, parent, "
        "verdicts of validate_string/validate_native on a probe set) and compared with a "
        "plain-dict reference model; schema + XmlDocument/dict output are compared at the end of "
        "the history; replay under 3 hash seeds. Non-trivial = the history contains a derivation "
        "whose source already has another live derivative or a referrer in the pool (only then "
        "aliasing is observable); distinct = hash of the op-kind sequence")
ASSUMPTIONS = [
    "the contract of an operation is its docstring in model/_base.py / model/complex.py: "
    "new type = source + requested changes; child_attrs_all reaches inherited fields through a "
    "customized parent; child_attrs for a not-yet-existing field is applied when the field is "
    "appended; append_field/insert_field reach the target and every class customized from it",
    "bookkeeping state (_variants, _subclasses, parent_variant, translations) is not "
    "part of a snapshot; comparison is by value, so replacing a field type by an equal copy is "
    "not a change",
    "schema rendering assigns type names to customized primitives, therefore schemas are "
    "rendered once, at the end of a history, one Application per pooled model",
    "cyclic type graphs, XmlAttribute/XmlData, `order=`, `exc*` and store_as are not generated",
]
MIN_NONTRIVIAL = 2

D = decimal.Decimal
INF = D("inf")
UTC = dtm.timezone.utc

_cache = {}


# --------------------------------------------------------------------------- spyne access
def _spyne():
    if _cache:
        return _cache
    from spyne.model import complex as cx
    from spyne.model import primitive as P
    from spyne.model.binary import ByteArray, BINARY_ENCODING_HEX, BINARY_ENCODING_BASE64, \
        BINARY_ENCODING_URLSAFE_BASE64
    from spyne.model._base import ModelBase
    roots = [("Unicode", P.Unicode, "text"), ("Integer", P.Integer, "int"),
             ("Decimal", P.Decimal, "dec"), ("Double", P.Double, "dbl"),
             ("Boolean", P.Boolean, "bool"), ("DateTime", P.DateTime, "dt"),
             ("ByteArray", ByteArray, "bin"), ("Integer32", P.Integer32, "int32"),
             ("AnyUri", P.AnyUri, "text")]
    _cache.update(cx=cx, roots=roots, Empty=ModelBase.Empty,
                  templates=[("ComplexModel", cx.ComplexModel, "complex"),
                             ("Array", cx.Array, "array"), ("Iterable", cx.Iterable, "array")],
                  enc={"hex": BINARY_ENCODING_HEX, "base64": BINARY_ENCODING_BASE64,
                       "urlsafe_base64": BINARY_ENCODING_URLSAFE_BASE64})
    # pristine state of the global classes, taken once per process
    _cache["pristine"] = {name: raw_attrs(cls) for name, cls, _ in roots + _cache["templates"]}
    return _cache


# --------------------------------------------------------------------------- snapshots
EXCLUDED = frozenset([
    "nullable", "pa", "unicode_pattern", "upattern",          # aliases of other attributes
    "translations",                                           # None -> empty normalisation
    "parent_variant", "methods",                              # bookkeeping
    "html_cloth", "html_root_cloth", "xml_cloth", "xml_root_cloth",
])


def raw_attrs(cls):
    """public values of cls.Attributes (+ annotations), raw python objects"""
    A = cls.Attributes
    out = {}
    for k in dir(A):
        if k[0] == "_" or k in EXCLUDED:
            continue
        out[k] = getattr(A, k)
    out["nillable"] = A.nillable
    # the column arguments of the database mapping: None and ((), {}) are the same
    sca = out.get("sqla_column_args")
    out["sqla_column_args"] = ((), {}) if sca is None else (tuple(sca[0]), dict(sca[-1]))
    out["@doc"] = cls.Annotations.doc
    out["@appinfo"] = cls.Annotations.appinfo
    return out


def canon(v):
    """value -> JSON-able canonical form (equality of canon == equality by value)"""
    if v is None or isinstance(v, (bool, str)):
        return v
    if isinstance(v, int):
        return v
    if isinstance(v, D):
        return "D:" + str(v)
    if isinstance(v, float):
        return "F:" + repr(v)
    if isinstance(v, dtm.datetime):
        return "DT:" + v.isoformat()
    if isinstance(v, type):
        return "C:" + v.__name__
    if isinstance(v, dict):
        return ["$dict"] + sorted(([json.dumps(canon(k), sort_keys=True), canon(x)]
                                   for k, x in v.items()), key=lambda kv: kv[0])
    if isinstance(v, (set, frozenset)):
        return ["$set"] + sorted(json.dumps(canon(x), sort_keys=True) for x in v)
    if isinstance(v, (list, tuple)):
        return [canon(x) for x in v]
    if isinstance(v, re.Pattern):
        return "RE:" + v.pattern
    if isinstance(v, bytes):
        return "B:" + v.hex()
    return "O:" + type(v).__name__


def type_name_of(cls):
    tn = cls.get_type_name()
    return tn if isinstance(tn, str) else "<Empty>"


# --------------------------------------------------------------------------- reference validators
TEXT_PROBES = [None, "", "a", "ab", "abc", "abcd", "abcdefgh", "x" * 12, "12", "A1"]
NUM_STR_PROBES = [None, "1", "1" * 12, "1" * 1100]
INT_PROBES = [None, -100, -3, -1, 0, 1, 2, 3, 5, 10, 100, 2 ** 31]
DEC_PROBES = [None] + [D(x) for x in ("-100", "-0.5", "0", "0.5", "1", "3", "10", "100")]
DBL_PROBES = [None, -100.0, -0.5, 0.0, 0.5, 1.0, 3.0, 10.0, 100.0]
DT_PROBES = [None] + [dtm.datetime(y, 6, 15, 12, 0, 0, tzinfo=UTC) for y in (1999, 2005, 2015, 2030)]
OTHER = {"bool": [None, True], "bin": [None, (b"a",)], "complex": [None, 1], "array": [None, 1]}


def probes_for(fam):
    """-> (string probes, native probes)"""
    if fam == "text":
        return TEXT_PROBES, TEXT_PROBES
    if fam in ("int", "int32"):
        return NUM_STR_PROBES, INT_PROBES
    if fam == "dec":
        return NUM_STR_PROBES, DEC_PROBES
    if fam == "dbl":
        return NUM_STR_PROBES, DBL_PROBES
    if fam == "dt":
        return [None, "x"], DT_PROBES
    return OTHER[fam], OTHER[fam]


def live_verdicts(cls, fam):
    sp, np_ = probes_for(fam)
    out = []
    for s in sp:
        try:
            out.append(bool(cls.validate_string(cls, s)))
        except Exception as e:
            out.append("raise:" + type(e).__name__)
    for v in np_:
        try:
            out.append(bool(cls.validate_native(cls, v)))
        except Exception as e:
            out.append("raise:" + type(e).__name__)
    return out


def _values_ok(A, v):
    vals = A.get("values")
    if vals is None or len(vals) == 0:
        return True
    if v is None:
        return bool(A["nillable"])
    return v in vals


def ref_verdicts(fam, A):
    """what the documented meaning of the attributes says about the probes.  After a reported
    attribute difference A holds the ACTUAL values, which on a defective tree can be ill-typed
    for the family (a datetime bound on a Decimal): such a probe is "raise:<type>" on both sides,
    as in live_verdicts."""
    nil = bool(A["nillable"])
    sp, np_ = probes_for(fam)
    out = []
    for s in sp:
        try:
            out.append(_ref_string_ok(fam, A, nil, s))
        except Exception as e:
            out.append("raise:" + type(e).__name__)
    for v in np_:
        try:
            out.append(_ref_native_ok(fam, A, nil, v))
        except Exception as e:
            out.append("raise:" + type(e).__name__)
    return out


def _ref_string_ok(fam, A, nil, s):
    ok = nil or s is not None
    if ok and s is not None:
        if fam == "text":
            ok = A["min_len"] <= len(s) <= A["max_len"]
        elif fam in ("int", "int32", "dec", "dbl"):
            ok = len(s) <= A["max_str_len"]
    return bool(ok)


def _ref_native_ok(fam, A, nil, v):
    ok = (nil or v is not None) and _values_ok(A, v)
    if ok and v is not None:
        if fam == "text":
            p = A.get("pattern")
            if p is not None:
                m = re.compile(p).match(v)
                ok = m is not None and m.span() == (0, len(v))
        elif fam in ("int", "int32", "dec", "dbl"):
            ok = v > A["gt"] and v >= A["ge"] and v < A["lt"] and v <= A["le"]
            if ok and fam in ("int", "int32"):
                ok = int(v) == v
            if ok and fam == "int32":
                ok = -2 ** 31 <= v <= 2 ** 31 - 1
        elif fam == "dt":
            ok = ((A["gt"] is None or v > A["gt"]) and v >= A["ge"]
                  and (A["lt"] is None or v < A["lt"]) and v <= A["le"])
    return bool(ok)


# --------------------------------------------------------------------------- reference nodes
class Node(object):
    __slots__ = ("id", "kind", "fam", "attrs", "fields", "extends", "src", "variant_of", "delayed",
                 "dcaa", "tn", "ns", "exp_tn", "cls", "adopt_member", "born", "how", "vexp", "label")

    def __init__(self, id_, kind, fam, attrs, fields=None, extends=None, src=None,
                 variant_of=None, delayed=None, dcaa=None, born=0, how="root", label=None):
        self.id = id_
        self.kind = kind          # simple | complex | array
        self.fam = fam            # probe family
        self.attrs = attrs        # raw expected values
        self.fields = fields if fields is not None else []
        self.extends = extends
        self.src = src            # node this one was derived from (derivation tree)
        self.variant_of = variant_of  # node this one was customize()d from (complex only)
        self.delayed = delayed if delayed is not None else {}
        self.dcaa = dcaa
        self.tn = None            # adopted when bound
        self.ns = None
        self.exp_tn = None        # requested type_name
        self.cls = None
        self.adopt_member = False
        self.born = born
        self.how = how
        self.vexp = None          # verdict override after a reported verdict change
        self.label = label

    def describe(self):
        return "#%d[%s %s via %s @step%s]" % (self.id, self.kind, self.label or self.tn,
                                              self.how, self.born)


def dec_kw(kw):
    return {k: jv.dec(v) for k, v in (kw or {}).items()}


class Skip(Exception):
    pass


class Machine(object):
    def __init__(self, oracle=True):
        S = _spyne()
        self.S = S
        self.oracle = oracle
        self.nodes = []
        self.reg = {}
        self.pool = []
        self.fails = []
        self.newly = set()
        self.fcount = 0
        self.ccount = 0
        self.used_names = set()
        self.classes = []          # histogram labels
        self.observable = 0
        self.executed = []         # op kinds actually executed
        self.aborted = False
        self.step_no = -1
        self.evolving = None
        self._preach = None
        self.tmpl = {}
        self._prots = None
        for name, cls, fam in S["roots"]:
            n = self._new("simple", fam, dict(S["pristine"][name]), how="root", label=name)
            self._register(cls, n)
            self.pool.append(n.id)
        for name, cls, kind in S["templates"]:
            n = self._new(kind, kind, dict(S["pristine"][name]), how="root", label=name)
            self._register(cls, n)
            self.tmpl[name] = n.id

    # -- user-written protocols with class-level type_attrs ---------------
    PROT_SPELLINGS = ("prot", "protocol", "p")

    def prots(self):
        """name -> (instance, type_attrs as declared).  Fresh classes per Machine, so a case
        never depends on what an earlier case did to a class-level dict."""
        if self._prots is None:
            from spyne.protocol.json import JsonDocument
            from spyne.protocol.xml import XmlDocument
            ta1 = {"doc": "pdoc", "min_occurs": 1}
            ta2 = {"nillable": False}
            TA1 = type("TA1Json", (JsonDocument,), {"type_attrs": dict(ta1)})
            TA2 = type("TA2Xml", (XmlDocument,), {"type_attrs": dict(ta2)})
            self._prots = {"a0": (TA1(), ta1), "a1": (TA1(), ta1), "b0": (TA2(), ta2),
                           "b1": (TA2(), ta2), "n0": (JsonDocument(), {})}
        return self._prots

    def with_prot(self, kw):
        """kw as generated -> (keywords for the live call, keywords of the reference model):
        customize(prot=p, **kw) == customize(**{**p.type_attrs, **kw}) with Attributes.prot = p"""
        kw = dict(kw)
        name = kw.pop("@prot", None)
        if name is None:
            return kw, kw
        name, _, spelled = name.partition("/")
        inst, declared = self.prots()[name]
        live = dict(kw)
        live[spelled or "prot"] = inst
        eff = dict(declared)
        eff.update(kw)
        eff["prot"] = inst
        return live, eff

    # -- reference bookkeeping --------------------------------------------
    def _new(self, kind, fam, attrs, **kw):
        n = Node(len(self.nodes), kind, fam, attrs, born=self.step_no, **kw)
        self.nodes.append(n)
        return n

    def _register(self, cls, n):
        n.cls = cls
        n.tn = type_name_of(cls)
        n.ns = cls.__namespace__
        self.reg[cls] = n.id
        self.newly.add(n.id)

    def fail(self, sig, msg):
        self.fails.append((sig, "step %d: %s" % (self.step_no, msg)))

    def root_of(self, nid):
        seen = set()
        while self.nodes[nid].src is not None and nid not in seen:
            seen.add(nid)
            nid = self.nodes[nid].src
        return nid

    def reach(self, nid):
        """node ids reachable through fields / extends (including nid)"""
        seen, todo = set(), [nid]
        while todo:
            x = todo.pop()
            if x in seen or x is None:
                continue
            seen.add(x)
            n = self.nodes[x]
            todo.extend(m for _, m in n.fields)
            if n.extends is not None:
                todo.append(n.extends)
        return seen

    def variants_of(self, nid):
        """nid and every live class customize()d from it, transitively, in creation order.
        Intermediate classes that are not reachable from the pool (child_attrs_all followed by
        child_attrs customizes the parent twice) have no live node but still link the chain."""
        closure = [nid]
        for n in self.nodes:
            if n.variant_of is not None and n.variant_of in closure and n.id not in closure:
                closure.append(n.id)
        return [x for x in closure if self.nodes[x].cls is not None]

    def flat(self, nid):
        n = self.nodes[nid]
        out = [] if n.extends is None else list(self.flat(n.extends))
        for name, m in n.fields:
            if name not in [x for x, _ in out]:
                out.append((name, m))
            else:
                out = [(x, (m if x == name else y)) for x, y in out]
        return out

    def relation(self, b, srcs):
        """kind of the bystander b relative to the operands (srcs[0] is the primary one)"""
        if b in srcs:
            return "source"
        if not srcs:
            return "unrelated"
        p = srcs[0]
        preach = self._preach if self._preach is not None else self.reach(p)
        if b in preach:
            return "source"      # a type the operand is built of (field type, member, parent)
        broot, proot = self.root_of(b), self.root_of(p)
        if broot == proot:
            return "sibling-derivative"
        if any(self.root_of(x) == proot for x in self.reach(b)):
            return "referrer"
        if any(self.root_of(x) == broot for x in preach):
            return "component-derivative"
        return "unrelated"

    def origin(self, nid):
        seen = set()
        while self.nodes[nid].variant_of is not None and nid not in seen:
            seen.add(nid)
            nid = self.nodes[nid].variant_of
        return nid

    def lineage(self, nid):
        """the original (not customized) classes up the inheritance chain of nid"""
        out = []
        o = self.origin(nid)
        while o is not None and o not in out:
            out.append(o)
            e = self.nodes[o].extends
            o = None if e is None else self.origin(e)
        return out

    def ref_equal(self, a, b, memo=None):
        if a == b:
            return True
        memo = {} if memo is None else memo
        key = (a, b)
        if key in memo:
            return memo[key]
        memo[key] = True
        x, y = self.nodes[a], self.nodes[b]
        ok = (x.kind == y.kind and x.fam == y.fam
              and self._attr_diff(x.attrs, y.attrs) == []
              and [n for n, _ in x.fields] == [n for n, _ in y.fields]
              and (x.extends is None) == (y.extends is None))
        if ok:
            for (_, m1), (_, m2) in zip(x.fields, y.fields):
                if not self.ref_equal(m1, m2, memo):
                    ok = False
                    break
        if ok and x.extends is not None:
            ok = self.ref_equal(x.extends, y.extends, memo)
        memo[key] = ok
        return ok

    @staticmethod
    def _attr_diff(exp, act):
        out = []
        for k in sorted(set(exp) | set(act)):
            if k not in exp or k not in act:
                out.append(k)
            elif exp[k] is not act[k] and canon(exp[k]) != canon(act[k]):
                out.append(k)
        return out

    # -- predictions ----------------------------------------------------
    def apply_kw(self, node, attrs, kw, how="customize"):
        """attrs := attrs + the documented effect of the keyword arguments"""
        # every derivation gets its own copy of the column arguments
        sca = attrs.get("sqla_column_args") or ((), {})
        attrs["sqla_column_args"] = (tuple(sca[0]), dict(sca[-1]))
        for k, v in kw.items():
            if k == "doc":
                attrs["@doc"] = v
            elif k == "pk":
                attrs["primary_key"] = v
                attrs["sqla_column_args"][-1]["primary_key"] = v
            elif k in ("autoincrement", "onupdate", "server_default"):
                attrs["sqla_column_args"][-1][k] = v
            elif k == "type_name":
                pass
            elif k == "max_occurs" and v in ("unbounded", "inf"):
                attrs[k] = INF
            elif k == "encoding" and how == "call" and node.fam == "bin":
                attrs[k] = self.S["enc"][v]
            elif k == "total_digits" and "max_str_len" not in kw and "max_str_len" in attrs:
                attrs[k] = v
                attrs["max_str_len"] = v + 3   # digits + sign + leading zero + decimal separator
            else:
                attrs[k] = v
        return attrs

    def r_customize(self, nid, kw, how="customize", via="customize"):
        src = self.nodes[nid]
        if src.kind == "simple":
            n = self._new("simple", src.fam, self.apply_kw(src, dict(src.attrs), kw, how),
                          src=nid, how=via)
            return n.id
        return self.r_customize_complex(nid, kw, via)

    def r_customize_complex(self, nid, kw, via="customize"):
        src = self.nodes[nid]
        n = self._new(src.kind, src.fam, self.apply_kw(src, dict(src.attrs), kw),
                      fields=list(src.fields), extends=src.extends, src=nid, variant_of=nid,
                      delayed=dict(src.delayed), dcaa=src.dcaa, how=via)
        n.adopt_member = src.adopt_member
        if "type_name" in kw:
            n.exp_tn = kw["type_name"]
        caa = kw.get("child_attrs_all")
        if caa is not None:
            n.fields = [(name, self.r_customize(m, caa, via="child_attrs_all"))
                        for name, m in n.fields]
            if n.extends is not None:
                n.extends = self.r_customize_complex(n.extends, {"child_attrs_all": caa},
                                                     "child_attrs_all")
            n.dcaa = caa
        ca = kw.get("child_attrs")
        if ca is not None:
            rest = dict(ca)
            newf = []
            for name, m in n.fields:
                if name in rest:
                    m = self.r_customize(m, rest.pop(name), via="child_attrs")
                newf.append((name, m))
            n.fields = newf
            base_names = []
            if n.extends is not None:
                n.extends = self.r_customize_complex(n.extends, {"child_attrs": dict(rest)},
                                                     "child_attrs")
                base_names = [x for x, _ in self.flat(n.extends)]
            for k, v in rest.items():
                if k not in base_names:
                    n.delayed[k] = v
        return n.id

    def r_mandatory(self, nid):
        src = self.nodes[nid]
        kw = {"min_occurs": 1, "nillable": False}
        if src.fam == "text":
            kw["min_len"] = 1
        new = self.r_customize(nid, kw, via="mandatory")
        n = self.nodes[new]
        if src.kind == "array" and len(n.fields) == 1:
            name, m = n.fields[0]
            if self.nodes[m].attrs.get("min_occurs") == 0:
                n.fields = [(name, self.r_mandatory(m))]
        return new

    def r_field_for(self, vid, name, tid):
        """type a field gets when it is added to class vid after the fact"""
        v = self.nodes[vid]
        t = tid
        if v.dcaa is not None:
            t = self.r_customize(t, v.dcaa, via="delayed_child_attrs_all")
        if name in v.delayed:
            t = self.r_customize(t, v.delayed[name], via="delayed_child_attrs")
        return t

    # -- binding predicted nodes to live classes ---------------------------
    def classify(self, cls):
        cx = self.S["cx"]
        if issubclass(cls, cx.Array):
            return "array", "array"
        if issubclass(cls, cx.ComplexModelBase):
            return "complex", "complex"
        fam, best = "bool", -1
        for _, rc, rf in self.S["roots"]:
            if issubclass(cls, rc) and len(rc.__mro__) > best:
                fam, best = rf, len(rc.__mro__)
        return "simple", fam

    def adopt(self, cls):
        """register an unknown class with its actual state as the reference (resync)"""
        if cls in self.reg:
            return self.reg[cls]
        kind, fam = self.classify(cls)
        n = self._new(kind, fam, raw_attrs(cls), how="adopted")
        self._register(cls, n)
        n.vexp = live_verdicts(cls, fam)
        if kind != "simple":
            n.fields = [(k, self.adopt(c)) for k, c in cls._type_info.items()]
            ext = getattr(cls, "__extends__", None)
            n.extends = None if ext is None else self.adopt(ext)
            orig = getattr(cls, "__orig__", None)
            if orig is not None and orig in self.reg:
                n.src = n.variant_of = self.reg[orig]
        return n.id

    def bind_edge(self, cls, m, op, ctx):
        node = self.nodes[m]
        if cls in self.reg:
            k = self.reg[cls]
            if k != m and not self.ref_equal(k, m):
                self.fail("C15|derived-wrong|%s|fields" % op,
                          "%s: expected a type equal to %s but found %s; differing: %s"
                          % (ctx, node.describe(), self.nodes[k].describe(),
                             self._attr_diff(node.attrs, self.nodes[k].attrs)))
            return k
        if node.cls is None:
            return self.bind(cls, m, op, ctx)
        # prediction: the existing type m; reality: a fresh class -> must be an equal copy
        c = self._new(node.kind, node.fam, dict(node.attrs), fields=list(node.fields),
                      extends=node.extends, src=node.src, variant_of=node.variant_of,
                      delayed=dict(node.delayed), dcaa=node.dcaa, how="copy")
        c.adopt_member = node.adopt_member
        return self.bind(cls, c.id, op, ctx)

    def bind(self, cls, nid, op, ctx=""):
        node = self.nodes[nid]
        self._register(cls, node)
        step_op = op
        if node.kind == "simple":
            # every derivation of a primitive is SimpleModel.customize: one root cause, one label
            op = "prim_customize"
            ctx = "[%s] %s" % (step_op, ctx)
        act = raw_attrs(cls)
        diffs = self._attr_diff(node.attrs, act)
        for k in diffs:
            lab = op
            if node.how == "mandatory" and k in ("min_occurs", "nillable", "min_len"):
                lab = "mandatory:" + node.kind
            self.fail("C15|derived-wrong|%s|%s" % (lab, k.lstrip("@")),
                      "%s %s (%s): attribute %s is %r, the source had %r and the request makes it %r"
                      % (ctx, node.describe(), cls.__name__, k, act.get(k, "<absent>"),
                         self.nodes[node.src].attrs.get(k, "<absent>") if node.src is not None else None,
                         node.attrs.get(k, "<absent>")))
            if k in act:
                node.attrs[k] = act[k]
            else:
                node.attrs.pop(k, None)
        if node.exp_tn is not None and node.tn != node.exp_tn:
            self.fail("C15|derived-wrong|%s|type_name" % op,
                      "%s: type_name=%r requested, got %r" % (node.describe(), node.exp_tn, node.tn))
        # (node.attrs now holds the actual values of any attribute reported above, so a verdict
        # difference is never a mere consequence of an attribute difference)
        lv = live_verdicts(cls, node.fam)
        rv = ref_verdicts(node.fam, node.attrs)
        if lv != rv:
            self.fail("C15|derived-wrong|%s|verdict" % op,
                      "%s: verdicts on the probe set %r differ from what its attributes mean %r "
                      "(probes %r)" % (node.describe(), lv, rv, probes_for(node.fam)))
            node.vexp = lv
        if node.kind != "simple":
            items = list(cls._type_info.items())
            if node.adopt_member and len(items) == 1 and len(node.fields) == 1:
                node.fields = [(items[0][0], node.fields[0][1])]
            an, rn = [k for k, _ in items], [k for k, _ in node.fields]
            if an != rn:
                if sorted(an) == sorted(rn):
                    self.fail("C15|field-order|type_info", "%s: own fields are %r, declared %r"
                              % (node.describe(), an, rn))
                else:
                    self.fail("C15|derived-wrong|%s|fields" % op,
                              "%s: own fields are %r, expected %r" % (node.describe(), an, rn))
                node.fields = [(k, self.adopt(c)) for k, c in items]
            else:
                node.fields = [(k, self.bind_edge(c, m, op, "%s.%s" % (node.describe(), k)))
                               for (k, c), (_, m) in zip(items, node.fields)]
            ext = getattr(cls, "__extends__", None)
            if (ext is None) != (node.extends is None):
                self.fail("C15|derived-wrong|%s|extends" % op, "%s: __extends__ is %r, expected %s"
                          % (node.describe(), ext, node.extends))
                node.extends = None if ext is None else self.adopt(ext)
            elif ext is not None:
                node.extends = self.bind_edge(ext, node.extends, op, "%s.__extends__" % node.describe())
            self.check_flat(node)
        return nid

    def check_flat(self, node):
        cls = node.cls
        try:
            act = list(cls.get_flat_type_info(cls).keys())
        except Exception as e:
            et, where = F.exc_origin(e)
            self.fail("C15|escaped|%s|%s|get_flat_type_info" % (et, where), "%s: %r" % (node.describe(), e))
            return
        exp = [k for k, _ in self.flat(node.id)]
        if act != exp:
            what = "flat" if sorted(act) == sorted(exp) else "flat-content"
            self.fail("C15|field-order|%s" % what,
                      "%s: get_flat_type_info gives %r; declaration order, parents first, is %r"
                      % (node.describe(), act, exp))

    # -- the invariant --------------------------------------------------------
    def check_bystander(self, nid, op, srcs):
        node = self.nodes[nid]
        cls = node.cls
        rel = None
        act = raw_attrs(cls)
        diffs = self._attr_diff(node.attrs, act)
        if type_name_of(cls) != node.tn:
            diffs.append("@type_name")
        if cls.__namespace__ != node.ns:
            diffs.append("@namespace")
        for k in diffs:
            rel = rel or self.relation(nid, srcs)
            if k == "@type_name":
                old, new = node.tn, type_name_of(cls)
                node.tn = new
            elif k == "@namespace":
                old, new = node.ns, cls.__namespace__
                node.ns = new
            else:
                old, new = node.attrs.get(k, "<absent>"), act.get(k, "<absent>")
                if k in act:
                    node.attrs[k] = act[k]
                else:
                    node.attrs.pop(k, None)
            self.fail("C15|aliasing|%s|%s|%s" % (op, k.lstrip("@"), rel),
                      "%s was not an operand result of this step but its %s changed from %r to %r"
                      % (node.describe(), k, old, new))
        lv = live_verdicts(cls, node.fam)
        rv = node.vexp if node.vexp is not None else ref_verdicts(node.fam, node.attrs)
        if lv != rv:
            rel = rel or self.relation(nid, srcs)
            self.fail("C15|aliasing|%s|verdict|%s" % (op, rel),
                      "%s: validation verdicts on the probe set are %r; its public attributes "
                      "mean %r" % (node.describe(), lv, rv))
            node.vexp = lv
        if node.kind == "simple":
            return
        items = list(cls._type_info.items())
        exp = node.fields
        changed = None
        if [k for k, _ in items] != [k for k, _ in exp]:
            changed = "own fields are %r, expected %r" % ([k for k, _ in items], [k for k, _ in exp])
        else:
            newf = []
            for (k, c), (_, m) in zip(items, exp):
                if self.nodes[m].cls is None:
                    # documented propagation created a (predicted) customized field type
                    newf.append((k, self.bind(c, m, op, "%s.%s" % (node.describe(), k))
                                 if c not in self.reg else self.bind_edge(c, m, op, node.describe())))
                    continue
                k2 = self.reg.get(c)
                if k2 == m:
                    newf.append((k, m))
                elif k2 is not None and self.ref_equal(k2, m):
                    newf.append((k, k2))
                else:
                    if k2 is None:
                        k2 = self.adopt(c)
                        if self.ref_equal(k2, m):
                            newf.append((k, k2))
                            continue
                    changed = ("the type of field %r was %s and is now %s (differing attributes: %s)"
                               % (k, self.nodes[m].describe(), self.nodes[k2].describe(),
                                  self._attr_diff(self.nodes[m].attrs, self.nodes[k2].attrs)))
                    newf.append((k, k2))
            if changed is None:
                node.fields = newf
        if changed is not None:
            rel = rel or self.relation(nid, srcs)
            ev = self.evolving
            if ev is not None and nid in ev[1] and \
                    [k for k, _ in items] == [k for k, _ in exp if k != ev[0]]:
                self.fail("C15|propagation-missing|%s" % op,
                          "%s was customized from the class the field %r was added to, but did not "
                          "receive it: %s" % (node.describe(), ev[0], changed))
            elif ev is not None and nid not in ev[1] and \
                    [k for k, _ in items if k != ev[0]] == [k for k, _ in exp] and \
                    set(self.lineage(nid)) & set(self.lineage(srcs[0])):
                self.fail("C15|aliasing|%s|fields|variant-of-related-class" % op,
                          "%s is not customized from %s, the class the field %r was added to (their "
                          "original classes are only related by inheritance), but received the "
                          "field: %s" % (node.describe(), self.nodes[srcs[0]].describe(), ev[0], changed))
            else:
                self.fail("C15|aliasing|%s|fields|%s" % (op, rel), "%s: %s" % (node.describe(), changed))
            node.fields = [(k, self.adopt(c)) for k, c in items]
        ext = getattr(cls, "__extends__", None)
        ek = None if ext is None else self.reg.get(ext)
        if ext is not None and ek is None:
            ek = self.adopt(ext)
        if ek != node.extends and not (ek is not None and node.extends is not None
                                       and self.ref_equal(ek, node.extends)):
            rel = rel or self.relation(nid, srcs)
            self.fail("C15|aliasing|%s|extends|%s" % (op, rel),
                      "%s: __extends__ changed to %r" % (node.describe(), ext))
        node.extends = ek

    def invariant(self, op, srcs, new_pairs):
        before = len(self.nodes)
        # what the primary operand is built of, before any re-synchronisation in this step
        self._preach = self.reach(srcs[0]) if srcs else None
        for cls, nid in new_pairs:
            if cls in self.reg:
                k = self.reg[cls]
                if not self.ref_equal(k, nid):
                    self.fail("C15|derived-wrong|%s|identity" % op,
                              "the operation returned the existing class %s instead of a type equal "
                              "to %s" % (self.nodes[k].describe(), self.nodes[nid].describe()))
                continue
            self.bind(cls, nid, op, "result")
        for nid in range(before):
            node = self.nodes[nid]
            if node.cls is None or nid in self.newly:
                continue
            self.check_bystander(nid, op, srcs)
        for nid in range(before):
            node = self.nodes[nid]
            if node.cls is not None and node.kind != "simple" and nid not in self.newly:
                self.check_flat(node)
        self.newly = set()
        self.evolving = None

    # -- operations ----------------------------------------------------------
    def pick(self, idx, pred, pref=None):
        cands = [p for p in self.pool if pred(self.nodes[p])]
        if pref is not None:
            pc = [p for p in cands if self.nodes[p].kind == pref]
            cands = pc or cands
        if not cands:
            raise Skip()
        return cands[idx % len(cands)]

    def fname(self, ghost=None):
        if ghost is not None:
            g = "g%d" % (ghost % 3)
            if g not in self.used_names:
                self.used_names.add(g)
                return g
        self.fcount += 1
        name = "f%d" % self.fcount
        self.used_names.add(name)
        return name

    def is_observable(self, srcs):
        """does a source have another live derivative or a referrer?"""
        for s in srcs:
            for n in self.nodes:
                if n.cls is None or n.id == s:
                    continue
                if n.src == s or n.variant_of == s:
                    return True
                if any(m == s for _, m in n.fields) or n.extends == s:
                    return True
        return False

    def run_step(self, step):
        op = step.get("op")
        fn = getattr(self, "op_" + str(op), None)
        if fn is None:
            return
        try:
            kind, srcs, thunk = fn(step)
        except Skip:
            self.classes.append("skipped:" + str(op))
            return
        obs = self.is_observable(srcs)
        try:
            new_pairs = thunk()
        except Exception as e:
            et, where = F.exc_origin(e)
            self.fail("C15|escaped|%s|%s|%s" % (et, where, kind),
                      "%s raised %r (step %r)" % (kind, e, step))
            # the models may be half-updated now: no further oracle on this history
            self.aborted = True
            self.oracle = False
            self.classes.append("op:" + kind)
            return
        self.executed.append(kind)
        self.classes.append("op:" + kind)
        if obs:
            self.observable += 1
            self.classes.append("observable:" + kind)
        self.invariant(kind, srcs, new_pairs)
        for cls, nid in new_pairs:
            self.pool.append(self.reg[cls])

    # each op_* returns (kind label, source node ids, thunk -> [(new class, predicted node id)])
    def op_prim(self, step):
        fam = step.get("fam", "text")
        sid = self.pick(step.get("src", 0), lambda n: n.kind == "simple" and
                        (n.fam == fam or (fam == "int" and n.fam == "int32")))
        src = self.nodes[sid]
        kw = dec_kw(step.get("kw"))
        how = step.get("how", "customize")
        pos = [jv.dec(x) for x in step.get("pos") or []]
        if "encoding" in kw and how != "call":
            how = "call"
        if pos and (how != "call" or src.fam not in ("text", "dec")):
            pos = []
        if src.fam != "text":
            for k in ("max_len", "min_len"):
                kw.pop(k, None)
        kw, eff = self.with_prot(kw)
        eff = dict(eff)
        if pos and src.fam == "text":
            eff["max_len"] = pos[0]
        elif pos and src.fam == "dec":
            eff["total_digits"] = pos[0]
            eff["fraction_digits"] = pos[1] if len(pos) > 1 else 0

        def thunk():
            cls = src.cls
            nid = self.r_customize(sid, eff, how=how, via="prim_" + how)
            if how == "call":
                new = cls(*pos, **kw)
            elif how == "index":
                new = cls[kw]
            else:
                new = cls.customize(**kw)
            return [(new, nid)]
        return "prim_customize", [sid], thunk

    def _field_list(self, step):
        out = []
        for f in (step.get("fields") or [])[:5]:
            i, pref = f if isinstance(f, list) else (f, None)
            tid = self.pick(i, lambda n: True, pref)
            out.append((self.fname(), tid))
        return out

    def _make_class(self, name, base, fields, style):
        cx = self.S["cx"]
        ti = [(k, self.nodes[t].cls) for k, t in fields]
        if style == "attrs":
            d = {"__namespace__": "c15.ns"}
            for k, c in ti:
                d[k] = c
        else:
            d = {"__namespace__": "c15.ns", "_type_info": ti}
        return cx.ComplexModelMeta(name, (base,), d)

    def op_new(self, step):
        fields = self._field_list(step)
        self.ccount += 1
        name = "K%d" % self.ccount
        tmpl = self.nodes[self.tmpl["ComplexModel"]]

        def thunk():
            n = self._new("complex", "complex", dict(tmpl.attrs), fields=list(fields),
                          how="new_complex", label=name)
            new = self._make_class(name, tmpl.cls, fields, step.get("style", "ti"))
            return [(new, n.id)]
        return "new_complex", [t for _, t in fields], thunk

    def op_sub(self, step):
        pid = self.pick(step.get("src", 0), lambda n: n.kind == "complex" and n.variant_of is None
                        and n.how in ("new_complex", "subclass") and len(n.fields) > 0)
        parent = self.nodes[pid]
        fields = self._field_list(step)
        self.ccount += 1
        name = "K%d" % self.ccount

        def thunk():
            n = self._new("complex", "complex", dict(parent.attrs), fields=list(fields),
                          extends=pid, how="subclass", label=name)
            new = self._make_class(name, parent.cls, fields, step.get("style", "ti"))
            return [(new, n.id)]
        return "subclass", [pid] + [t for _, t in fields], thunk

    def _complex_kw(self, kw):
        kw = dec_kw(kw)
        for k in ("default", "empty_is_none"):
            kw.pop(k, None)
        if "type_name" in kw:
            kw["type_name"] = "T%d_%s" % (self.step_no, kw["type_name"])
        return kw

    def op_cust(self, step):
        sid = self.pick(step.get("src", 0), lambda n: n.kind in ("complex", "array"))
        src = self.nodes[sid]
        kw, eff = self.with_prot(self._complex_kw(step.get("kw")))

        def thunk():
            nid = self.r_customize_complex(sid, eff, "customize")
            return [(src.cls.customize(**kw), nid)]
        return "customize_complex", [sid], thunk

    def _child_sel(self, sid, sel, ghost):
        flat = self.flat(sid)
        ca = {}
        for fi, kw in (sel or [])[:3]:
            if not flat:
                break
            name, m = flat[fi % len(flat)]
            kw = dec_kw(kw)
            fam = self.nodes[m].fam
            if self.nodes[m].kind != "simple":
                kw = {k: v for k, v in kw.items() if k in ("nillable", "min_occurs", "max_occurs",
                                                             "sub_name", "doc")}
            else:
                if fam != "text":
                    kw.pop("max_len", None)
                if fam not in ("int", "int32", "dec", "dbl"):
                    kw.pop("ge", None)
                elif "ge" in kw and fam == "dec":
                    kw["ge"] = D(kw["ge"])
                elif "ge" in kw and fam == "dbl":
                    kw["ge"] = float(kw["ge"])
                kw.pop("type_name", None)
                kw.pop("validate_freq", None)
            kw.pop("default", None)
            ca[name] = kw
        if ghost is not None:
            ca["g%d" % (ghost % 3)] = {"min_occurs": 1, "nillable": False}
        return ca

    def op_child(self, step):
        sid = self.pick(step.get("src", 0), lambda n: n.kind == "complex")
        src = self.nodes[sid]
        ca = self._child_sel(sid, step.get("sel"), step.get("ghost"))
        if not ca:
            raise Skip()
        kw = self._complex_kw(step.get("kw"))
        kw["child_attrs"] = ca
        caa = step.get("all")
        if caa is not None:
            kw["child_attrs_all"] = {k: v for k, v in dec_kw(caa).items()
                                     if k in ("nillable", "min_occurs", "max_occurs", "doc")}
        kind = "child_attrs" if caa is None else "child_attrs+all"

        def thunk():
            nid = self.r_customize_complex(sid, _copy_kw(kw), kind)
            return [(src.cls.customize(**kw), nid)]
        return kind, [sid], thunk

    def op_child_all(self, step):
        sid = self.pick(step.get("src", 0), lambda n: n.kind == "complex")
        src = self.nodes[sid]
        caa = {k: v for k, v in dec_kw(step.get("all")).items()
               if k in ("nillable", "min_occurs", "max_occurs", "doc")}
        kw = self._complex_kw(step.get("kw"))
        kw["child_attrs_all"] = caa

        def thunk():
            nid = self.r_customize_complex(sid, _copy_kw(kw), "child_attrs_all")
            return [(src.cls.customize(**kw), nid)]
        return "child_attrs_all", [sid], thunk

    def op_array(self, step):
        form = step.get("form", "array")
        sid = self.pick(step.get("src", 0), lambda n: True, step.get("pref"))
        src = self.nodes[sid]
        cx = self.S["cx"]
        kw = dec_kw(step.get("kw"))
        kw = {k: v for k, v in kw.items() if k in ("nillable", "min_occurs", "doc", "sub_name")}

        if form in ("array", "iterable"):
            tname = "Array" if form == "array" else "Iterable"
            tmpl = self.nodes[self.tmpl[tname]]

            def thunk():
                nid = self.r_customize_complex(tmpl.id, kw, form)
                n = self.nodes[nid]
                n.src = sid
                n.variant_of = None
                if src.attrs["max_occurs"] == 1:
                    m = self.r_customize(sid, {"max_occurs": INF}, via="array_member")
                else:
                    m = sid
                tn = src.cls.get_type_name()
                if isinstance(tn, str):
                    n.fields = [(tn, m)]
                else:
                    n.fields = [("?", m)]
                    n.adopt_member = True
                new = getattr(cx, tname)(src.cls, **kw)
                return [(new, nid)]
            return form, [sid], thunk
        if form == "unwrapped":
            def thunk():
                eff = dict(kw)
                if src.attrs["max_occurs"] == 1:
                    eff["max_occurs"] = "unbounded"
                nid = self.r_customize(sid, eff, via="array_unwrapped")
                return [(cx.Array(src.cls, wrapped=False, **kw), nid)]
            return "array_unwrapped", [sid], thunk

        def thunk():
            eff = dict(kw, max_occurs=2 + step.get("n", 0) % 4)
            nid = self.r_customize(sid, eff, via="max_occurs")
            return [(src.cls.customize(**eff), nid)]
        return "max_occurs", [sid], thunk

    def op_mand(self, step):
        sid = self.pick(step.get("src", 0), lambda n: True, step.get("pref"))
        src = self.nodes[sid]
        cx = self.S["cx"]

        def thunk():
            nid = self.r_mandatory(sid)
            return [(cx.Mandatory(src.cls), nid)]
        return "mandatory:" + src.kind, [sid], thunk

    def _evolve(self, step, insert):
        # fields are added to a class itself; what adding a field to a customized *variant*
        # means for its siblings is not documented (the code says _variants is only for the
        # root class), so that is outside the domain.
        sid = self.pick(step.get("src", 0), lambda n: n.kind == "complex" and n.variant_of is None)
        targets = self.variants_of(sid)
        tid = self.pick(step.get("t", 0),
                        lambda n: not (set(targets) & self.reach(n.id)), step.get("pref"))
        src, t = self.nodes[sid], self.nodes[tid]
        name = self.fname(step.get("ghost"))
        idx = step.get("idx", 0)
        kind = ("insert_field" if insert else "append_field") + \
               (":variant" if src.variant_of is not None else "")

        def thunk():
            self.evolving = (name, set(targets))
            for vid in targets:
                v = self.nodes[vid]
                ft = self.r_field_for(vid, name, tid)
                if insert:
                    v.fields.insert(idx, (name, ft))
                else:
                    v.fields.append((name, ft))
            if insert:
                src.cls.insert_field(idx, name, t.cls)
            else:
                src.cls.append_field(name, t.cls)
            return []
        return kind, [sid, tid], thunk

    def op_append(self, step):
        return self._evolve(step, False)

    def op_insert(self, step):
        return self._evolve(step, True)

    # -- whole history -------------------------------------------------------
    def run(self, steps):
        self.step_no = -1
        self.newly = set()
        self.invariant("initial-state", [], [])
        for i, step in enumerate(steps):
            if self.aborted:
                break
            self.step_no = i
            if isinstance(step, dict):
                self.run_step(step)
        self.step_no = len(steps)

    # -- end of history: schema and protocol output ----------------------------
    def final_observation(self):
        """-> {pool index: {...}} ; also checks against the reference when the oracle is on"""
        obs = {}
        for pi, nid in enumerate(self.pool):
            node = self.nodes[nid]
            if node.kind == "simple" or node.cls is None:
                continue
            cls = node.cls
            o = {"own": list(cls._type_info.keys())}
            try:
                o["flat"] = list(cls.get_flat_type_info(cls).keys())
            except Exception as e:
                o["flat"] = "raise:%s" % type(e).__name__
            obs[str(pi)] = o
        diverged = any(sig.startswith("C15|propagation") or
                       (sig.startswith("C15|aliasing") and "|fields|" in sig)
                       for sig, _ in self.fails)
        if diverged:
            # the field tables no longer follow the reference semantics; every further
            # difference would be a consequence of what is already reported
            self.oracle = False
        for pi, nid in enumerate(self.pool):
            node = self.nodes[nid]
            if str(pi) not in obs:
                continue
            o = obs[str(pi)]
            if node.kind == "complex":
                o.update(self.protocol_orders(node))
            o["schema"] = self.render_schema(node, pi)
        return obs

    def render_schema(self, node, pi):
        from lxml import etree
        from spyne import Application, rpc, ServiceBase
        from spyne.protocol.xml import XmlDocument
        from spyne.interface.xml_schema import XmlSchema
        cls = node.cls
        try:
            def m(ctx, x):
                pass
            svc = type("C15Svc", (ServiceBase,), {"m": rpc(cls)(m)})
            app = Application([svc], "c15.tns", name="C15App%d" % pi,
                              in_protocol=XmlDocument(), out_protocol=XmlDocument())
            xs = XmlSchema(app.interface)
            xs.build_interface_document()
            xs.add(cls, set())
            pref = cls.get_namespace_prefix(app.interface)
            el = xs.get_schema_info(pref).types[cls.get_type_name()]
        except Exception as e:
            # Several Applications are built over the same classes here (one per pooled model);
            # a failure of the interface builder in that artificial set-up is not a C15 matter
            # (C06/C07 decide schema generation).  Counted, visible in the evidence.
            et, where = F.exc_origin(e)
            self.classes.append("render_error:%s@%s" % (et, where))
            return "raise:%s" % et
        rows = []
        seqs = [x for x in el.iter("{http://www.w3.org/2001/XMLSchema}sequence")]
        if seqs:
            for ch in seqs[0]:
                rows.append([ch.get("name"), ch.get("minOccurs", "1"), ch.get("maxOccurs", "1"),
                             ch.get("nillable", "false"), ch.get("default")])
        has_base = any(True for _ in el.iter("{http://www.w3.org/2001/XMLSchema}extension"))
        if self.oracle:
            self.check_schema(node, rows, has_base)
        # namespace prefixes (s0, s1, ...) are handed out in the order in which the interface
        # walks a *set* of classes (address-ordered): not a matter of field order
        xml = re.sub(r' (type|base)="(?!xs:)[A-Za-z0-9_]+:', r' \1="ns:',
                     etree.tostring(el, method="c14n").decode("utf8"))
        return {"rows": rows, "base": has_base, "xml": xml}

    def check_schema(self, node, rows, has_base):
        exp = []
        for fname, m in node.fields:
            A = self.nodes[m].attrs
            mx = A["max_occurs"]
            exp.append([A.get("sub_name") or fname, str(A["min_occurs"]),
                        "unbounded" if mx in (INF, float("inf")) else str(mx),
                        "true" if A["nillable"] else "false"])
        got = [r[:4] for r in rows]
        if node.kind == "array" and len(got) == len(exp) == 1:
            exp[0][0] = got[0][0]      # the member element is named after the member type
        if [r[0] for r in got] != [r[0] for r in exp]:
            if sorted(r[0] for r in got) == sorted(r[0] for r in exp):
                self.fail("C15|field-order|schema", "%s: schema sequence %r, declared order %r"
                          % (node.describe(), [r[0] for r in got], [r[0] for r in exp]))
            else:
                self.fail("C15|schema-mismatch|fields", "%s: schema sequence %r, fields %r"
                          % (node.describe(), [r[0] for r in got], [r[0] for r in exp]))
        else:
            for g, e in zip(got, exp):
                for col, what in ((1, "minOccurs"), (2, "maxOccurs"), (3, "nillable")):
                    if g[col] != e[col]:
                        self.fail("C15|schema-mismatch|%s" % what,
                                  "%s: element %r has %s=%r in the schema, the field type says %r"
                                  % (node.describe(), g[0], what, g[col], e[col]))
        if has_base != (node.extends is not None):
            self.fail("C15|schema-mismatch|base", "%s: extension base present=%r, parent=%r"
                      % (node.describe(), has_base, node.extends))

    _VALUES = {"text": "a", "int": 1, "int32": 1, "dec": D("1"), "dbl": 1.5, "bool": True,
               "dt": dtm.datetime(2020, 1, 2, 3, 4, 5, tzinfo=UTC), "bin": [b"a"]}

    def _value_for(self, c):
        """a value for the leaves only: nested objects stay None (an optional None member is
        left out by the protocols, a mandatory one is written as nil / null)"""
        kind, fam = self.classify(c)
        if kind != "simple":
            return None
        v = self._VALUES[fam]
        if c.Attributes.max_occurs > 1:
            v = [v]
        return v

    def protocol_orders(self, node):
        from spyne.util.xml import get_object_as_xml
        from spyne.util.dictdoc import get_object_as_json_doc
        cls = node.cls
        out = {}
        if cls.Attributes.max_occurs > 1:
            return out          # the class itself denotes a sequence of instances
        try:
            inst = (cls.__orig__ or cls)()
            for k, c in cls.get_flat_type_info(cls).items():
                setattr(inst, k, self._value_for(c))
            el = get_object_as_xml(inst, cls)
            out["xml"] = [ch.tag.split("}")[-1] for ch in el]
            d = get_object_as_json_doc(inst, cls, complex_as=dict)
            out["dict"] = list(d.keys())
        except Exception as e:
            out["proto_error"] = type(e).__name__
            self.classes.append("protocol_error:" + type(e).__name__)
            return out
        if self.oracle:
            ref_names = []
            for k, m in self.flat(node.id):
                n = self.nodes[m]
                if n.kind == "simple" or n.attrs["min_occurs"] > 0:
                    ref_names.append(n.attrs.get("sub_name") or k)
            if len(set(ref_names)) != len(ref_names):
                self.classes.append("dup_sub_name")
            elif out["dict"] != ref_names:
                what = "dict" if sorted(out["dict"]) == sorted(ref_names) else "dict-content"
                self.fail("C15|field-order|%s" % what, "%s: JsonDocument output keys %r, declaration order %r"
                          % (node.describe(), out["dict"], ref_names))
            if out["xml"] != ref_names:
                what = "xml" if sorted(out["xml"]) == sorted(ref_names) else "xml-content"
                self.fail("C15|field-order|%s" % what, "%s: XmlDocument children %r, declaration order %r"
                          % (node.describe(), out["xml"], ref_names))
        return out


def _copy_kw(kw):
    return {k: (dict((a, dict(b) if isinstance(b, dict) else b) for a, b in v.items())
                if isinstance(v, dict) else v) for k, v in kw.items()}


# --------------------------------------------------------------------------- hash seeds
SEEDS = (1, 2, 3)


def observe(case):
    """what a fresh interpreter sees at the end of the history (same interpretation of the
    steps as in the search process: the reference model takes part in choosing operands)"""
    m = Machine(oracle=True)
    m.run(case.get("steps") or [])
    return m.final_observation()


def replay_under_seeds(cases):
    """-> {seed: [observation per case]} computed in fresh interpreters"""
    out = {}
    with tempfile.TemporaryDirectory(prefix="c15_") as d:
        path = os.path.join(d, "cases.json")
        with open(path, "w") as fp:
            json.dump(cases, fp)
        procs = []
        for s in SEEDS:
            e = dict(os.environ, PYTHONHASHSEED=str(s), PYTHONPATH=env.VERIF,
                     PYTHONDONTWRITEBYTECODE="1", PYTHONWARNINGS="ignore")
            procs.append((s, subprocess.Popen(
                [sys.executable, "-m", "pbt.props.c15", "--order", path], cwd=env.VERIF, env=e,
                stdout=subprocess.PIPE, stderr=subprocess.PIPE)))
        for s, p in procs:
            so, se = p.communicate(timeout=1800)
            if p.returncode != 0:
                raise RuntimeError("hash-seed replay failed (seed %s): %s" % (s, se.decode()[-2000:]))
            out[s] = json.loads(so.decode())
    return out


def compare_seeds(case, others):
    """others = {seed: observation in a fresh interpreter}; -> failures.  The observations of
    fresh interpreters are compared with each other, not with the long-lived search process
    (whose namespace-prefix counters and type names depend on the cases it ran before)."""
    fails = []
    seeds = sorted(others)
    first = others[seeds[0]]
    for seed in seeds[1:]:
        o = others[seed]
        if o == first:
            continue
        what, detail = "models", "different sets of pooled models"
        for pi in sorted(set(first) | set(o), key=int):
            a, b = first.get(pi), o.get(pi)
            if a == b:
                continue
            if a is not None and b is not None:
                what = "schema"
                for k in ("own", "flat", "xml", "dict"):
                    if a.get(k) != b.get(k):
                        what = "field-order-" + k
                        break
            detail = ("pool entry %s under PYTHONHASHSEED=%s: %r ; under PYTHONHASHSEED=%s: %r"
                      % (pi, seeds[0], a, seed, b))
            break
        fails.append(("C15|hashseed|%s" % what, detail))
    return fails


# --------------------------------------------------------------------------- strategies
def _enc(v):
    if isinstance(v, (D, dtm.datetime)):
        return jv.enc(v)
    return v


_generic = st.fixed_dictionaries({}, optional={
    "nillable": st.booleans(),
    "min_occurs": st.integers(0, 2),
    "max_occurs": st.sampled_from([1, 2, 3, "unbounded"]),
    "sub_name": st.sampled_from(["s0", "s1", "s2"]),
    "doc": st.sampled_from(["d0", "d1"]),
    # database-mapping keywords: kept in Attributes.sqla_column_args, one copy per type
    "pk": st.booleans(),
    "server_default": st.sampled_from(["0", "now()"]),
    "autoincrement": st.booleans(),
    "onupdate": st.sampled_from(["x"]),
})
_DTS = [dtm.datetime(y, 1, 1, tzinfo=UTC) for y in (2000, 2010, 2020)]
_FAM_KW = {
    "text": st.fixed_dictionaries({}, optional={
        "max_len": st.integers(0, 12), "min_len": st.integers(0, 4),
        "pattern": st.sampled_from(["[a-z]+", "[0-9]*", "a.*", "[A-Z][0-9]"]),
        "values": st.sampled_from([["a", "ab"], ["abc"]]),
        "default": st.just("dflt"), "empty_is_none": st.booleans()}),
    "int": st.fixed_dictionaries({}, optional={
        "ge": st.integers(-5, 12), "gt": st.integers(-5, 12), "le": st.integers(-5, 12),
        "lt": st.integers(-5, 12), "values": st.just([1, 2, 3]), "default": st.just(5)}),
    "dec": st.fixed_dictionaries({}, optional={
        "ge": st.sampled_from([D("-1"), D("0.5"), D("3")]), "gt": st.sampled_from([D("0"), D("2.5")]),
        "le": st.sampled_from([D("5"), D("10.5")]), "lt": st.sampled_from([D("3"), D("100")]),
        "default": st.just(D("5"))}),
    "dbl": st.fixed_dictionaries({}, optional={
        "ge": st.sampled_from([-1.0, 0.5, 3.0]), "gt": st.sampled_from([0.0, 2.5]),
        "le": st.sampled_from([5.0, 10.5]), "lt": st.sampled_from([3.0, 100.0])}),
    "bool": st.just({}),
    "dt": st.fixed_dictionaries({}, optional={
        "ge": st.sampled_from(_DTS), "le": st.sampled_from(_DTS), "gt": st.sampled_from(_DTS),
        "timezone": st.just(False), "dt_format": st.just("%Y-%m-%dT%H:%M:%S")}),
    "bin": st.fixed_dictionaries({}, optional={
        "encoding": st.sampled_from(["hex", "base64", "urlsafe_base64"])}),
}
_idx = st.integers(0, 40)
# a user-written protocol with class-level type_attrs, passed as prot= / protocol= / p=
_prot = st.tuples(st.sampled_from(["a0", "a1", "b0", "b1", "n0"]),
                  st.sampled_from(["prot", "prot", "protocol", "p"])).map("/".join)


@st.composite
def _prim_step(draw):
    fam = draw(st.sampled_from(["text", "text", "int", "int", "dec", "dbl", "bool", "dt", "bin"]))
    kw = dict(draw(_generic))
    kw.update(draw(_FAM_KW[fam]))
    step = {"op": "prim", "fam": fam, "src": draw(_idx),
            "how": draw(st.sampled_from(["call", "customize", "customize", "index"])),
            "kw": {k: _enc(v) for k, v in kw.items()}}
    if draw(st.integers(0, 3)) == 0:
        step["kw"]["@prot"] = draw(_prot)
    if fam == "text" and draw(st.integers(0, 5)) == 0:
        step["pos"] = [draw(st.integers(1, 12))]
        step["how"] = "call"
        step["kw"].pop("max_len", None)
    elif fam == "dec" and draw(st.integers(0, 3)) == 0:
        td = draw(st.integers(1, 8))
        step["pos"] = [td, draw(st.integers(0, td))]
        step["how"] = "call"
    return step


_ckw = st.fixed_dictionaries({}, optional={
    "nillable": st.booleans(), "min_occurs": st.integers(0, 2),
    "max_occurs": st.sampled_from([1, 2, "unbounded"]), "sub_name": st.sampled_from(["s0", "s1"]),
    "doc": st.sampled_from(["d0", "d1"]), "validate_freq": st.booleans(),
    "type_name": st.just("tn")})
_sel_kw = st.fixed_dictionaries({}, optional={
    "nillable": st.booleans(), "min_occurs": st.integers(0, 2),
    "max_occurs": st.sampled_from([1, 2, "unbounded"]), "sub_name": st.sampled_from(["s0", "s1"]),
    "doc": st.just("cd"), "max_len": st.integers(1, 9), "ge": st.integers(-2, 4)})
_all_kw = st.fixed_dictionaries({}, optional={
    "nillable": st.booleans(), "min_occurs": st.integers(0, 2),
    "max_occurs": st.sampled_from([1, 2, "unbounded"]), "doc": st.just("ad")})
_pref = st.sampled_from([None, "simple", "simple", "complex", "array"])
_tpref = st.sampled_from([None, "simple", "complex", "complex", "array"])
_fields = st.lists(st.tuples(_idx, _pref).map(list), min_size=0, max_size=4)
_style = st.sampled_from(["ti", "ti", "attrs"])
_ghost = st.one_of(st.none(), st.none(), st.integers(0, 2))


@st.composite
def _complex_step(draw, op):
    if op == "new":
        return {"op": "new", "fields": draw(_fields), "style": draw(_style)}
    if op == "sub":
        return {"op": "sub", "src": draw(_idx), "fields": draw(_fields), "style": draw(_style)}
    if op == "cust":
        s = {"op": "cust", "src": draw(_idx), "kw": dict(draw(_ckw))}
        if draw(st.integers(0, 3)) == 0:
            s["kw"]["@prot"] = draw(_prot)
        return s
    if op == "child":
        s = {"op": "child", "src": draw(_idx),
             "sel": draw(st.lists(st.tuples(_idx, _sel_kw).map(list), min_size=1, max_size=3)),
             "ghost": draw(_ghost), "kw": draw(st.one_of(st.just({}), _ckw))}
        if draw(st.integers(0, 4)) == 0:
            s["all"] = draw(_all_kw)
        return s
    if op == "child_all":
        return {"op": "child_all", "src": draw(_idx), "all": draw(_all_kw),
                "kw": draw(st.one_of(st.just({}), _ckw))}
    if op == "array":
        return {"op": "array", "src": draw(_idx), "pref": draw(_pref),
                "form": draw(st.sampled_from(["array", "array", "iterable", "unwrapped", "max_occurs"])),
                "kw": draw(st.one_of(st.just({}), _generic)), "n": draw(st.integers(0, 3))}
    if op == "mand":
        return {"op": "mand", "src": draw(_idx), "pref": draw(_pref)}
    if op == "append":
        return {"op": "append", "src": draw(_idx), "t": draw(_idx), "pref": draw(_tpref),
                "ghost": draw(_ghost)}
    return {"op": "insert", "src": draw(_idx), "t": draw(_idx), "pref": draw(_tpref),
            "idx": draw(st.integers(-1, 3)), "ghost": draw(_ghost)}


_OPS = ["prim", "prim", "prim", "new", "new", "new", "sub", "sub", "cust", "cust", "child", "child",
        "child_all", "child_all", "array", "array", "mand", "mand", "append", "append", "insert",
        "insert"]


@st.composite
def _any_step(draw):
    op = draw(st.sampled_from(_OPS))
    if op == "prim":
        return draw(_prim_step())
    return draw(_complex_step(op))


def histories():
    """4-30 steps (mean about 17).  A list of lists of independent steps, so that the shrinker
    can delete any step; operations whose operand kind is not in the pool yet are skipped by
    the interpreter."""
    chunk = st.lists(_any_step(), min_size=2, max_size=8)
    return st.lists(chunk, min_size=2, max_size=8).map(
        lambda ll: {"steps": [x for l in ll for x in l][:30]})


# --------------------------------------------------------------------------- enumeration
# K1(f1: Unicode, f2: Integer); K2(K1)(f3: Decimal); then every sequence over ALPHABET
ENUM_PREFIX = [
    {"op": "new", "fields": [[0, "simple"], [1, "simple"]], "style": "ti"},
    {"op": "sub", "src": 0, "fields": [[2, "simple"]], "style": "ti"},
]
ALPHABET = [
    {"op": "cust", "src": 0, "kw": {"min_occurs": 1}},
    {"op": "cust", "src": 1, "kw": {"nillable": False}},
    {"op": "child_all", "src": 0, "all": {"min_occurs": 1}, "kw": {}},
    {"op": "child_all", "src": 1, "all": {"max_occurs": 2}, "kw": {}},
    {"op": "child", "src": 0, "sel": [[0, {"max_len": 3}]], "ghost": None, "kw": {}},
    {"op": "child", "src": 1, "sel": [[0, {"min_occurs": 1}]], "ghost": 0, "kw": {}},
    {"op": "array", "src": 0, "pref": "complex", "form": "array", "kw": {}},
    {"op": "array", "src": 0, "pref": "simple", "form": "array", "kw": {}},
    {"op": "mand", "src": 0, "pref": "complex"},
    {"op": "mand", "src": 0, "pref": "array"},
    {"op": "mand", "src": 0, "pref": "simple"},
    {"op": "sub", "src": 0, "fields": [[4, "simple"]], "style": "attrs"},
]
for _s in (0, 1, 2):
    for _t, _p in ((3, "simple"), (2, "complex")):
        ALPHABET.append({"op": "append", "src": _s, "t": _t, "pref": _p, "ghost": 0})
        ALPHABET.append({"op": "insert", "src": _s, "t": _t, "pref": _p, "idx": 0, "ghost": 0})

EXHAUSTIVE = {
    "quick": ["every history K1; K2(K1); a; b with a, b from a 24-letter alphabet of operations "
              "(customize, child_attrs(_all), Array, Mandatory, subclass, append/insert_field on "
              "base / subclass / variant with a primitive or a related class): 576 histories"],
    "thorough": ["every history K1; K2(K1); a; b[; c] over the same 24-letter alphabet: "
                 "576 + 13824 histories"],
}


def enum_cases(length):
    import itertools
    for combo in itertools.product(range(len(ALPHABET)), repeat=length):
        yield {"steps": ENUM_PREFIX + [ALPHABET[i] for i in combo]}


# --------------------------------------------------------------------------- contract
def shards(tier):
    n = 120 if tier == "quick" else 1000
    out = [{"kind": "hyp", "i": i, "n": n} for i in range(16)]
    out += [{"kind": "enum", "i": i, "of": 4, "len": 2} for i in range(4)]
    if tier == "thorough":
        out += [{"kind": "enum", "i": i, "of": 16, "len": 3} for i in range(16)]
    return out


_FINAL_SIGS = ("C15|field-order|schema", "C15|field-order|xml", "C15|field-order|dict",
               "C15|schema-mismatch", "C15|hashseed")


def run_case(case, rec, hashseed="no", sink=None):
    m = Machine(oracle=True)
    m.run(case.get("steps") or [])
    target = getattr(rec, "_target_sig", None)
    if target is None or target.startswith(_FINAL_SIGS):
        obs = m.final_observation()
    else:
        obs = None      # shrinking a per-step signature: the end-of-history rendering is not needed
    fails = list(m.fails)
    if hashseed == "now":
        others = replay_under_seeds([case])
        fails.extend(compare_seeds(case, {s: o[0] for s, o in others.items()}))
    elif sink is not None and obs is not None:
        sink(case, obs, m)
    # one failure per signature per case is enough
    seen, uniq = set(), []
    for sig, msg in fails:
        if sig not in seen:
            seen.add(sig)
            uniq.append((sig, msg))
    kinds = m.executed
    hist = {}
    for k in kinds:
        hist[k] = hist.get(k, 0) + 1
    nt = None
    if m.observable:
        nt = {"ops": hist, "observable": True,
              "seq": hashlib.blake2b("/".join(kinds).encode(), digest_size=8).hexdigest()}
    rec.count("steps_executed", len(kinds))
    rec.count("observable_steps", m.observable)
    rec.count("nodes_checked", len(m.nodes))
    rec.case(case, failures=uniq, nontrivial=nt,
             classes=m.classes + ["len:%d" % (10 * (len(kinds) // 10))]
             + (["history:observable"] if m.observable else ["history:trivial"])
             + (["history:aborted"] if m.aborted else []))
    return uniq


def run_shard(shard, rec):
    if shard.get("kind") == "enum":
        for idx, case in enumerate(enum_cases(shard["len"])):
            if idx % shard["of"] == shard["i"]:
                run_case(case, rec)
        return
    target = getattr(rec, "_target_sig", None)
    buf = []
    every = rec.tier == "thorough"
    limit = 10 ** 9 if every else 12

    def sink(case, obs, m):
        if target is not None:
            return
        ncx = sum(1 for p in m.pool if m.nodes[p].kind != "simple")
        if (every or ncx >= 2) and sink.taken < limit:
            sink.taken += 1
            buf.append(case)
        if len(buf) >= 150:
            flush()
    sink.taken = 0

    def flush():
        if not buf:
            return
        others = replay_under_seeds(list(buf))
        for i, c in enumerate(buf):
            for sig, msg in compare_seeds(c, {s: v[i] for s, v in others.items()}):
                rec.fail(sig, msg, c)
            rec.count("hashseed_histories")
        del buf[:]

    mode = "now" if (target or "").startswith("C15|hashseed") else "no"
    rec.hyp(histories(), lambda case: run_case(case, rec, hashseed=mode, sink=sink), shard["n"])
    flush()


class _NullRec(object):
    tier = "quick"
    _target_sig = None

    def case(self, *a, **k):
        pass

    def count(self, *a, **k):
        pass


def replay(case):
    return run_case(case, _NullRec(), hashseed="now")


def _main(argv):
    if len(argv) == 2 and argv[0] == "--order":
        with open(argv[1]) as fp:
            cases = json.load(fp)
        json.dump([observe(c) for c in cases], sys.stdout, default=str)
        return 0
    sys.stderr.write("usage: python -m pbt.props.c15 --order cases.json\n")
    return 2


if __name__ == "__main__":
    sys.exit(_main(sys.argv[1:]))
