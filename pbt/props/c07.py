"""C07 — WSDL/XSD are well-formed, closed, deterministic and drive a foreign client.

case = generated application: 1-4 services, methods with custom operation / in-message names,
       in/out headers, declared faults, port types, 1-3 namespaces, every body style,
       Soap11 or Soap12 binding.
Oracles
  closure    : every QName-valued attribute of the WSDL and its embedded schemas resolves (own
               resolver over the in-scope prefix bindings) to a definition in the document or
               an XSD builtin
  structure  : every exposed method <-> exactly one portType operation with matching binding
               operation, input/output messages whose parts name declared elements, and one
               fault per declared fault
  determinism: the same spec built twice in-process and in fresh processes under several
               PYTHONHASHSEED values gives byte-identical WSDL
  zeep       : a client built by zeep from the WSDL bytes alone produces requests the server
               decodes to the sent values and decodes the replies to the returned values
"""
import hashlib
import io
import json
import os
import subprocess
import sys
import tempfile

from hypothesis import strategies as st
from lxml import etree

from .. import build, drive, spec, values, jv, env
from .. import findings as F
from ..ref_xml import XS, q

PROPERTY = "C07"
RULE = ("cases = generated applications (1-4 services x 1-4 methods, custom operation / "
        "in-message names, in/out headers, declared faults, port types, 1-3 namespaces, "
        "wrapped/bare/out_bare, Soap11/Soap12); oracles: own QName-closure resolver, "
        "method<->operation/binding/message/fault correspondence, byte identity across rebuilds "
        "and PYTHONHASHSEED values (fresh subprocesses), and zeep (client from the WSDL bytes "
        "only) round trips. Non-trivial = >=2 namespaces or >=2 services or headers / faults / "
        "port types / custom names present; distinct = hash of the application shape")
ASSUMPTIONS = [
    "zeep 4.3 is the independent toolkit; values it cannot carry (calibrated by decoding its "
    "request with the reference decoder first) are counted under oracle_unavailable",
    "zeep legs use wrapped (document/literal-wrapped) operations of the first port of each service",
]
MAXTASKSPERCHILD = 6
WSDL = "http://schemas.xmlsoap.org/wsdl/"
SOAP_B = {"soap11": "http://schemas.xmlsoap.org/wsdl/soap/",
          "soap12": "http://schemas.xmlsoap.org/wsdl/soap12/"}
XSD_BUILTINS = set("""string boolean decimal float double duration dateTime time date gYearMonth
gYear gMonthDay gDay gMonth hexBinary base64Binary anyURI QName NOTATION normalizedString token
language NMTOKEN NMTOKENS Name NCName ID IDREF IDREFS ENTITY ENTITIES integer nonPositiveInteger
negativeInteger long int short byte nonNegativeInteger unsignedLong unsignedInt unsignedShort
unsignedByte positiveInteger anyType anySimpleType""".split())
SEEDS = ["0", "1", "4242"]


@st.composite
def app_specs(draw):
    U = draw(spec.universes(max_classes=3))
    cn = [c["name"] for c in U["classes"]]
    prot = draw(st.sampled_from(["soap11", "soap11", "soap12"]))
    nsvc = draw(st.sampled_from([1, 1, 2, 3, 4]))
    used = set()
    services = []
    nfault = draw(st.integers(0, 2))
    faults = [{"name": "F%d" % i, "ns": draw(st.sampled_from(U["nss"]))} for i in range(nfault)]
    for si in range(nsvc):
        nm = draw(st.integers(1, 4))
        methods = []
        port_types = draw(st.sampled_from([None, None, None, ["PT%da" % si, "PT%db" % si]]))
        for mi in range(nm):
            name = draw(st.sampled_from(spec.METHOD_NAMES + ["op%d" % mi, "Op%d" % mi]))
            if name in used:
                name = "%s_s%dm%d" % (name, si, mi)
            used.add(name)
            style = draw(st.sampled_from(["wrapped", "wrapped", "wrapped", "bare", "out_bare"]))
            m = draw(spec.methods(U, name=name, styles=(style,)))
            c = draw(st.integers(0, 5))
            if c == 0:
                m["_operation_name"] = "Op_%s" % name
            elif c == 1:
                m["_in_message_name"] = "In_%s" % name
            if style == "wrapped" and len(m["ret"]) == 1 and draw(st.integers(0, 3)) == 0:
                m["_out_variable_name"] = "out_%s" % name
            if cn and draw(st.integers(0, 3)) == 0:
                # one header class, or several (spyne then synthesizes a multi-part
                # '<name>InHeaderMsg' / '<name>OutHeaderMsg' message)
                m["in_header"] = draw(st.lists(st.sampled_from(cn), min_size=1, max_size=2, unique=True))
            if cn and draw(st.integers(0, 3)) == 0:
                m["out_header"] = draw(st.lists(st.sampled_from(cn), min_size=1, max_size=2, unique=True))
            if faults and draw(st.integers(0, 2)) == 0:
                m["throws"] = sorted(set(draw(st.lists(st.sampled_from([f["name"] for f in faults]),
                                                       min_size=1, max_size=2))))
            if port_types:
                m["_port_type"] = draw(st.sampled_from(port_types))
            if style == "wrapped" and len(m["args"]) < 4 and draw(st.integers(0, 3)) == 0:
                # an enumerated string type that the interface does reach (facets drawn inside
                # unreferenced classes never get into the WSDL)
                m["args"].append(["pick", {
                    "k": "prim", "t": "Unicode",
                    "f": {"values": draw(st.lists(st.sampled_from(
                        ["a", "b", "xyz", "A b", "north", "south", "east", "west", "é"]),
                        min_size=2, max_size=5, unique=True))},
                    "occ": {"min": 0, "max": 1, "nillable": True}}])
            methods.append(m)
        services.append({"name": "Svc%d" % si, "methods": methods, "port_types": port_types})
    return {"U": U, "prot": prot, "services": services, "faults": faults,
            "app_name": draw(st.sampled_from(["App", "MyService", "x"]))}


def build_app(A, validator=None):
    """-> (app, wsgi app, Built, Recorder)"""
    from spyne.model.fault import Fault
    from spyne.protocol.soap import Soap11, Soap12
    from spyne.server.wsgi import WsgiApplication
    B = build.Built(A["U"])
    B.faults = {}
    for f in A["faults"]:
        B.faults[f["name"]] = type(f["name"], (Fault,), {"__namespace__": f["ns"]})
    R = build.Recorder()
    svcs = []
    for s in A["services"]:
        S = build.make_service(B, s["name"], s["methods"], R)
        if s.get("port_types"):
            S.__port_types__ = tuple(s["port_types"])
        svcs.append(S)
    P = Soap11 if A["prot"] == "soap11" else Soap12
    app = build.make_app(svcs, A["U"]["tns"], P(validator=validator), P(), name=A["app_name"])
    w = WsgiApplication(app)
    return app, w, B, R


def build_wsdl(A, url="http://localhost/app/"):
    app, w, B, R = build_app(A)
    w.doc.wsdl11.build_interface_document(url)
    return w.doc.wsdl11.get_interface_document(), (app, w, B, R)


# ---------------------------------------------------------------- closure
def _resolve(node, text):
    if ":" in text:
        p, n = text.split(":", 1)
        return node.nsmap.get(p), n, p
    return node.nsmap.get(None), text, None


def closure_failures(doc):
    """-> list of (rule id, message)"""
    fails = []
    tns = doc.get("targetNamespace")
    defs = {"message": set(), "portType": set(), "binding": set(), "service": set()}
    for k in defs:
        for e in doc.findall(q(WSDL, k)):
            defs[k].add((tns, e.get("name")))
    stypes, ctypes, elements, attrs = set(), set(), set(), set()
    schemas = doc.findall("%s/%s" % (q(WSDL, "types"), q(XS, "schema")))
    for s in schemas:
        stns = s.get("targetNamespace")
        for e in s.findall(q(XS, "simpleType")):
            stypes.add((stns, e.get("name")))
        for e in s.findall(q(XS, "complexType")):
            ctypes.add((stns, e.get("name")))
        for e in s.findall(q(XS, "element")):
            elements.add((stns, e.get("name")))
        for e in s.findall(q(XS, "attribute")):
            attrs.add((stns, e.get("name")))
    schema_ns = set(s.get("targetNamespace") for s in schemas)

    def check(node, attr, kinds, what):
        text = node.get(attr)
        if text is None:
            return
        ns, name, prefix = _resolve(node, text)
        if prefix is not None and ns is None:
            fails.append(("unbound-prefix|%s" % what,
                          "%s=%r on <%s>: prefix %r is not bound" % (attr, text, etree.QName(node).localname, prefix)))
            return
        ok = False
        for kind in kinds:
            if kind == "type":
                ok = ok or (ns == XS and name in XSD_BUILTINS) or (ns, name) in stypes or (ns, name) in ctypes
            elif kind == "element":
                ok = ok or (ns, name) in elements
            elif kind == "attribute":
                ok = ok or (ns, name) in attrs
            else:
                ok = ok or (ns, name) in defs[kind]
        if not ok:
            fails.append(("dangling|%s" % what,
                          "%s=%r on <%s name=%r> resolves to {%s}%s which is not defined"
                          % (attr, text, etree.QName(node).localname, node.get("name"), ns, name)))

    for s in schemas:
        imported = set(i.get("namespace") for i in s.findall(q(XS, "import")))
        stns = s.get("targetNamespace")
        for node in s.iter():
            if not isinstance(node.tag, str) or etree.QName(node).namespace != XS:
                continue
            ln = etree.QName(node).localname
            for attr, kinds in (("type", ["type"]), ("base", ["type"]), ("itemType", ["type"]),
                                ("ref", ["element", "attribute"] if ln in ("element", "attribute") else [])):
                if not kinds:
                    continue
                check(node, attr, kinds, "xsd:%s@%s" % (ln, attr))
                text = node.get(attr)
                if text is not None:
                    ns, name, _p = _resolve(node, text)
                    if ns not in (XS, stns, None) and ns in schema_ns and ns not in imported:
                        fails.append(("missing-import|xsd:%s@%s" % (ln, attr),
                                      "schema %r refers to {%s}%s without importing that namespace"
                                      % (stns, ns, name)))
    for node in doc.iter():
        if not isinstance(node.tag, str):
            continue
        qn = etree.QName(node)
        if qn.namespace == WSDL:
            if qn.localname == "part":
                check(node, "element", ["element"], "wsdl:part@element")
                check(node, "type", ["type"], "wsdl:part@type")
            elif qn.localname in ("input", "output", "fault") and \
                    etree.QName(node.getparent()).localname == "operation" and \
                    etree.QName(node.getparent().getparent()).localname == "portType":
                check(node, "message", ["message"], "wsdl:%s@message" % qn.localname)
            elif qn.localname == "binding" and node.getparent() is doc:
                check(node, "type", ["portType"], "wsdl:binding@type")
            elif qn.localname == "port":
                check(node, "binding", ["binding"], "wsdl:port@binding")
        elif qn.namespace in SOAP_B.values() and qn.localname == "header":
            check(node, "message", ["message"], "soap:header@message")
            text = node.get("message")
            if text is not None:
                ns, name, _p = _resolve(node, text)
                msg = [m for m in doc.findall(q(WSDL, "message")) if m.get("name") == name]
                if msg and node.get("part") not in [p.get("name") for p in msg[0].findall(q(WSDL, "part"))]:
                    fails.append(("dangling|soap:header@part",
                                  "soap:header part=%r is not a part of message %r" % (node.get("part"), name)))
    return fails


def structure_failures(doc, A):
    fails = []
    tns = doc.get("targetNamespace")
    pts = {p.get("name"): p for p in doc.findall(q(WSDL, "portType"))}
    bindings = doc.findall(q(WSDL, "binding"))
    messages = {m.get("name"): m for m in doc.findall(q(WSDL, "message"))}
    for s in A["services"]:
        for m in s["methods"]:
            op_name = m.get("_operation_name") or m["name"]
            owners = [(pn, o) for pn, p in pts.items() for o in p.findall(q(WSDL, "operation"))
                      if o.get("name") == op_name]
            if len(owners) != 1:
                fails.append(("operation-count!=1", "method %s: %d portType operations named %r"
                              % (m["name"], len(owners), op_name)))
                continue
            pn, op = owners[0]
            if m.get("_port_type") and pn != m["_port_type"]:
                fails.append(("operation-in-wrong-porttype", "method %s is in portType %s, declared %s"
                              % (m["name"], pn, m["_port_type"])))
            bops = []
            for b in bindings:
                ns, name, _p = _resolve(b, b.get("type"))
                if name == pn:
                    bops += [o for o in b.findall(q(WSDL, "operation")) if o.get("name") == op_name]
            if len(bops) != 1:
                fails.append(("binding-operation-count!=1", "method %s: %d binding operations for "
                              "portType %s" % (m["name"], len(bops), pn)))
            for io_ in ("input", "output"):
                e = op.find(q(WSDL, io_))
                if e is None:
                    fails.append(("missing-%s" % io_, "operation %s has no %s" % (op_name, io_)))
                    continue
                ns, name, _p = _resolve(e, e.get("message"))
                msg = messages.get(name)
                if msg is None:
                    continue       # reported by closure
                parts = msg.findall(q(WSDL, "part"))
                if len(parts) != 1:
                    fails.append(("message-parts!=1", "message %s has %d parts" % (name, len(parts))))
                if bops:
                    be = bops[0].find(q(WSDL, io_))
                    if be is None or be.get("name") != e.get("name"):
                        fails.append(("binding-%s-name-mismatch" % io_,
                                      "operation %s: portType %s name %r, binding %r"
                                      % (op_name, io_, e.get("name"), None if be is None else be.get("name"))))
            want = sorted(m.get("throws") or [])
            got = sorted(f.get("name") for f in op.findall(q(WSDL, "fault")))
            if want != got:
                fails.append(("faults-mismatch", "operation %s declares faults %r, method throws %r"
                              % (op_name, got, want)))
            if bops:
                bgot = sorted(f.get("name") for f in bops[0].findall(q(WSDL, "fault")))
                if want != bgot:
                    fails.append(("binding-faults-mismatch", "binding operation %s declares faults %r, "
                                  "method throws %r" % (op_name, bgot, want)))
    # every service port's binding exists and every portType operation belongs to a method
    known = set((m.get("_operation_name") or m["name"]) for s in A["services"] for m in s["methods"])
    for pn, p in pts.items():
        for o in p.findall(q(WSDL, "operation")):
            if o.get("name") not in known:
                fails.append(("phantom-operation", "portType %s has operation %r that no method exposes"
                              % (pn, o.get("name"))))
    return fails


# ---------------------------------------------------------------- determinism (subprocess)
def digest_of(A):
    wsdl, _ = build_wsdl(A)
    return hashlib.sha256(wsdl).hexdigest()


def hashseed_digests(specs, seed):
    """build every spec in ONE fresh interpreter under PYTHONHASHSEED=seed -> [digest]"""
    d = tempfile.mkdtemp(prefix="c07_")
    try:
        f = os.path.join(d, "specs.json")
        with open(f, "w") as fp:
            json.dump(specs, fp)
        e = dict(os.environ, PYTHONHASHSEED=seed, PYTHONPATH=env.VERIF, PYTHONWARNINGS="ignore")
        out = subprocess.run([sys.executable, "-m", "pbt.props.c07", "--digests", f],
                             env=e, capture_output=True, text=True, timeout=600, cwd=env.VERIF)
        if out.returncode != 0:
            raise RuntimeError("digest subprocess failed: %s" % out.stderr[-2000:])
        return json.loads(out.stdout.strip().splitlines()[-1])
    finally:
        import shutil
        shutil.rmtree(d, ignore_errors=True)


# ---------------------------------------------------------------- zeep
class _Resp(object):
    def __init__(self, status, content, ct):
        self.status_code = status
        self.content = content
        self.headers = {"Content-Type": ct}
        self.encoding = "utf-8"
        self.text = content.decode("utf8", "replace")


def zeep_failures(A, wsdl, env4, rec):
    """wrapped operations of the first port: zeep request -> server -> zeep reply decode"""
    import zeep
    from zeep.transports import Transport
    app, w, B, R = env4
    fails = []

    class T(Transport):
        def load(self, url):
            raise IOError("the WSDL must be self-contained: zeep tried to load %r" % url)

    try:
        client = zeep.Client(io.BytesIO(wsdl), transport=T())
    except Exception as e:
        return [("zeep-cannot-load-wsdl|%s" % type(e).__name__, "zeep.Client(wsdl) raised %r" % (e,))]
    from ..ref_xml import SchemaModel, Codec
    xs = app.interface.docs.xml_schema
    model = SchemaModel(xs.schema_dict.values())
    codec = Codec(model, A["U"])
    tns = A["U"]["tns"]
    ns_env = ("http://schemas.xmlsoap.org/soap/envelope/" if A["prot"] == "soap11"
              else "http://www.w3.org/2003/05/soap-envelope")
    for s in A["services"]:
        for m in s["methods"]:
            if m["style"] != "wrapped" or m.get("in_header") or "_zargs" not in m:
                continue
            op_name = m.get("_operation_name") or m["name"]
            svc = None
            for sname, sv in client.wsdl.services.items():
                for pname, port in sv.ports.items():
                    if op_name in port.binding._operations:
                        svc = client.bind(sname, pname)
                        binding = port.binding
                        break
                if svc is not None:
                    break
            if svc is None:
                fails.append(("zeep-operation-not-found", "zeep finds no port offering %r" % op_name))
                continue
            kwargs = {}
            try:
                for (an, at), av in zip(m["args"], m["_zargs"]):
                    kwargs[an] = to_zeep(A["U"], model, at, av, _arg_type(model, tns, m, an))
                envelope = client.create_message(svc, op_name, **kwargs)
                body = etree.tostring(envelope)
            except Exception as e:
                rec.count("oracle_unavailable:zeep-create_message:%s" % type(e).__name__)
                continue
            # calibration: the reference decoder must read zeep's request as the sent values
            try:
                in_name = m.get("_in_message_name") or op_name
                el = etree.fromstring(body).find("{%s}Body" % ns_env)[0]
                tq = model.elements[(tns, in_name)]
                obj = codec.decode_members(el, tq, m["args"], in_name)
                cal = all(values.value_eq(B, at, getattr(obj, an, None), av, path=an) is None
                          for (an, at), av in zip(m["args"], m["_zargs"]))
            except Exception:
                cal = False
            if not cal:
                rec.count("oracle_unavailable:zeep-request-differs")
                continue
            rets = [B.to_native(t, j) for t, j in zip(m["ret"], m["_zrets"])]
            R.script[m["name"]] = (lambda ctx, a: None) if not rets else \
                ((lambda ctx, a, r=rets: r[0]) if len(rets) == 1 else (lambda ctx, a, r=rets: tuple(r)))
            R.reset()
            ct = "text/xml; charset=utf-8" if A["prot"] == "soap11" else "application/soap+xml; charset=utf-8"
            res = drive.wsgi_call(w, drive.environ("POST", "/app/", "", body, content_type=ct,
                                                   extra={"HTTP_SOAPACTION": '"%s"' % op_name}))
            if res.escaped is not None or not (res.status or "").startswith("200"):
                fails.append(("zeep-request-rejected|%s" % (res.status or "escaped")[:3],
                              "request built by zeep for %s was answered %s %r\nrequest: %s"
                              % (op_name, res.status, (res.escaped or res.body)[:300] if res.escaped is None else res.escaped,
                                 body.decode()[:600])))
                continue
            if len(R.calls) != 1 or R.calls[0][0] != m["name"]:
                fails.append(("zeep-request-misrouted", "zeep request for %s ran %r"
                              % (op_name, [c[0] for c in R.calls])))
                continue
            for (an, at), g, e in zip(m["args"], R.calls[0][1], m["_zargs"]):
                r = values.value_eq(B, at, g, e, path=an)
                if r:
                    fails.append(("zeep-argument-differs", "zeep request for %s: %s\nrequest: %s"
                                  % (op_name, r, body.decode()[:600])))
                    break
            try:
                reply = binding.process_reply(client, binding.get(op_name),
                                              _Resp(200, res.body, ct))
            except TypeError as e:
                if "multiple values for argument 'self'" in str(e):
                    # zeep cannot build an object with a member called 'self' (its bug)
                    rec.count("oracle_unavailable:zeep-member-named-self")
                    continue
                fails.append(("zeep-cannot-decode-reply|TypeError",
                              "zeep raised %r decoding the reply to %s: %s" % (e, op_name, res.body[:500])))
                continue
            except Exception as e:
                fails.append(("zeep-cannot-decode-reply|%s" % type(e).__name__,
                              "zeep raised %r decoding the reply to %s: %s" % (e, op_name, res.body[:500])))
                continue
            try:
                # process_reply unwraps single-member wrappers heuristically; the values are
                # read from zeep's schema-driven decoding of the body element instead
                body_el = [c for c in etree.fromstring(res.body).find("{%s}Body" % ns_env)
                           if isinstance(c.tag, str)][0]
                reply = client.wsdl.types.deserialize(body_el)
                got = from_zeep_reply(A["U"], model, tns, m, reply)
                for i, (rt, g, e) in enumerate(zip(m["ret"], got, m["_zrets"])):
                    e = _drop_empty_objects(A["U"], rt, e)   # zeep reads <x/> as None
                    g = _drop_empty_zobjects(g)
                    r = values.value_eq(B, rt, g, e, path="ret%d" % i,
                                        ident=values.Ident(empty_wrapped_is_none=True))
                    if r:
                        fails.append(("zeep-reply-differs", "zeep decodes the reply to %s differently: "
                                      "%s\nreply: %s" % (op_name, r, res.body.decode("utf8", "replace")[:600])))
                        break
            except Exception as e:
                rec.count("oracle_unavailable:zeep-reply-shape:%s" % type(e).__name__)
            rec.count("zeep_roundtrips")
    return fails


def _arg_type(model, tns, m, an):
    in_name = m.get("_in_message_name") or m.get("_operation_name") or m["name"]
    tq = model.elements[(tns, in_name)]
    for e in model.all_elements(tq):
        if e["name"] == an:
            return e
    raise KeyError(an)


def to_zeep(U, model, t, v, e):
    """tagged JSON value -> python structure zeep accepts for schema element e"""
    if v is None:
        return None
    occ = t.get("occ") or {}
    if occ.get("max", 1) != 1:
        t1 = dict(t, occ=dict(occ, max=1))
        return [to_zeep(U, model, t1, x, e) for x in v]
    k = t["k"]
    if k == "prim":
        n = jv.dec(v)
        return n
    if k == "enum":
        return v
    if k == "array":
        inner = model.all_elements(e["type"])[0]
        return {inner["name"]: [to_zeep(U, model, t["of"], x, inner) for x in v]}
    if k == "ref":
        cs = {c["name"]: c for c in U["classes"]}

        def fields(n):
            c = cs[n]
            return (fields(c["extends"]) if c["extends"] else []) + c["fields"]
        sub = {x["name"]: x for x in model.all_elements(e["type"])}
        sub.update({a["name"]: dict(a, max=1) for a in model.all_attributes(e["type"])})
        d = {}
        for fn, ft in fields(t["n"]):
            if fn in v["f"]:
                inner_t = ft["of"] if ft["k"] == "attr" else ft
                d[fn] = to_zeep(U, model, inner_t, v["f"][fn], sub[fn])
        return d
    raise ValueError(k)


def _drop_empty_objects(U, t, v):
    """zeep decodes an element without content as None: an object whose members are all
    absent is identified with None for the zeep oracle only"""
    cs = {c["name"]: c for c in U["classes"]}

    def fields(n):
        c = cs[n]
        return (fields(c["extends"]) if c["extends"] else []) + c["fields"]

    def go(t, v):
        if v is None:
            return None
        occ = t.get("occ") or {}
        if occ.get("max", 1) != 1 and t["k"] not in ("attr", "data"):
            t1 = dict(t, occ=dict(occ, max=1))
            return [go(t1, x) for x in v]
        if t["k"] == "array":
            return [go(t["of"], x) for x in v]
        if t["k"] == "ref":
            f = {}
            for fn, ft in fields(v.get("$obj", t["n"])):
                x = go(ft, v["f"].get(fn))
                if x is not None and x != []:
                    f[fn] = x
            if not f:
                return None
            return {"$obj": v.get("$obj", t["n"]), "f": f}
        if t["k"] in ("attr", "data"):
            return go(t["of"], v)
        if t["k"] == "prim" and v == "":
            return None       # zeep reads an empty string as None
        return v
    return go(t, v)


def _drop_empty_zobjects(g):
    if isinstance(g, _Z):
        d = {k: _drop_empty_zobjects(v) for k, v in g.__dict__.items() if k != "_cname"}
        if all(v is None or v == [] for v in d.values()):
            return None
        for k, v in d.items():
            setattr(g, k, v)
        return g
    if isinstance(g, list):
        return [_drop_empty_zobjects(x) for x in g]
    if g == "":
        return None
    return g


class _Z(object):
    def __init__(self, cname):
        self._cname = cname


def from_zeep(U, t, z):
    """zeep value -> native / RefObj-like for value_eq"""
    if z is None:
        return None
    occ = t.get("occ") or {}
    if occ.get("max", 1) != 1:
        t1 = dict(t, occ=dict(occ, max=1))
        return [from_zeep(U, t1, x) for x in z] or None
    k = t["k"]
    if k == "prim":
        from ..spec import PRIM_KIND
        if PRIM_KIND[t["t"]] == "td" and not hasattr(z, "days"):
            raise TypeError("zeep duration object")
        return z
    if k == "enum":
        return z
    if k == "attr":
        return from_zeep(U, t["of"], z)
    if k == "array":
        inner = [x for x in z] if isinstance(z, (list, tuple)) else None
        if inner is None:
            # CompoundValue with one repeated child
            vals = list(z.__values__.values())
            inner = vals[0] if vals else []
        return [from_zeep(U, t["of"], x) for x in (inner or [])]
    if k == "ref":
        cs = {c["name"]: c for c in U["classes"]}

        def fields(n):
            c = cs[n]
            return (fields(c["extends"]) if c["extends"] else []) + c["fields"]
        o = _Z(t["n"])
        for fn, ft in fields(t["n"]):
            setattr(o, fn, from_zeep(U, ft, getattr(z, fn, None) if not isinstance(z, dict) else z.get(fn)))
        return o
    raise ValueError(k)


def from_zeep_reply(U, model, tns, m, reply):
    if not m["ret"]:
        return []
    if len(m["ret"]) == 1:
        names = [m.get("_out_variable_name") or (m["name"] + "Result")]
    else:
        names = ["%sResult%d" % (m["name"], i) for i in range(len(m["ret"]))]
    return [from_zeep(U, t, getattr(reply, n, None)) for n, t in zip(names, m["ret"])]


ZEEP_KINDS = ("int", "text", "bool", "dec", "date")


def add_zeep_values(A, draw):
    """draw argument / return values for the methods zeep will call (types zeep carries)"""
    from ..spec import PRIM_KIND

    def ok(t, U):
        k = t["k"]
        if k == "prim":
            return PRIM_KIND[t["t"]] in ZEEP_KINDS and not t.get("f")
        if k in ("enum",):
            return True
        if k in ("attr", "data"):
            return ok(t["of"], U)
        if k == "array":
            return ok(t["of"], U)
        if k == "ref":
            cs = {c["name"]: c for c in U["classes"]}

            def fields(n):
                c = cs[n]
                return (fields(c["extends"]) if c["extends"] else []) + c["fields"]
            return all(ok(ft, U) for _, ft in fields(t["n"]))
        return False
    vg = values.ValueGen(A["U"], special_floats=False, text_max=12)
    for s in A["services"]:
        for m in s["methods"]:
            if m["style"] == "wrapped" and all(ok(t, A["U"]) for _, t in m["args"]) \
                    and all(ok(t, A["U"]) for t in m["ret"]):
                m["_zargs"] = [draw(vg.value(t)) for _, t in m["args"]]
                m["_zrets"] = [draw(vg.value(t)) for t in m["ret"]]


def cases(tier):
    @st.composite
    def one(draw):
        A = draw(app_specs())
        add_zeep_values(A, draw)
        return A
    return one()


def shape(A):
    return {"nss": len(A["U"]["nss"]), "nsvc": len(A["services"]),
            "nm": sum(len(s["methods"]) for s in A["services"]),
            "styles": sorted(set(m["style"] for s in A["services"] for m in s["methods"])),
            "hdr": any(m.get("in_header") or m.get("out_header") for s in A["services"] for m in s["methods"]),
            "faults": any(m.get("throws") for s in A["services"] for m in s["methods"]),
            "pt": any(s.get("port_types") for s in A["services"]),
            "custom": any(m.get("_operation_name") or m.get("_in_message_name") for s in A["services"] for m in s["methods"]),
            "prot": A["prot"], "ncls": len(A["U"]["classes"]),
            "inh": any(c["extends"] for c in A["U"]["classes"])}


def run_case(A, rec, digests=None):
    fails = []
    sh = shape(A)
    try:
        wsdl, env4 = build_wsdl(A)
        wsdl2, _ = build_wsdl(A)
    except Exception as e:
        et, where = F.exc_origin(e)
        fails.append(("C07|build-raises|%s|%s" % (et, where), "building the WSDL raised %r" % (e,)))
        rec.case(A, failures=fails, classes=["build_error"])
        return fails
    if wsdl != wsdl2:
        fails.append(("C07|nondeterministic|rebuild-in-process", "two builds of the same spec differ:\n%s"
                      % _first_diff(wsdl, wsdl2)))
    try:
        doc = etree.fromstring(wsdl)
    except Exception as e:
        fails.append(("C07|not-well-formed", "the WSDL does not parse: %r" % (e,)))
        rec.case(A, failures=fails)
        return fails
    for rule, msg in closure_failures(doc):
        fails.append(("C07|closure|" + rule, msg))
    for rule, msg in structure_failures(doc, A):
        fails.append(("C07|structure|" + rule, msg))
    # embedded schemas must compile as one set (libxml2 resolves imports inside the document? no:
    # they are written out and compiled by C06) -- here: zeep must at least load the document
    try:
        for rule_msg in zeep_failures(A, wsdl, env4, rec):
            fails.append(("C07|" + rule_msg[0], rule_msg[1]))
    except Exception as e:
        et, where = F.exc_origin(e)
        fails.append(("C07|zeep-leg-raises|%s" % type(e).__name__, "zeep leg raised %r" % (e,)))
    nt = None
    if sh["nss"] >= 2 or sh["nsvc"] >= 2 or sh["hdr"] or sh["faults"] or sh["pt"] or sh["custom"]:
        nt = sh
    clean = {k: v for k, v in A.items()}
    rec.case(clean, failures=fails, nontrivial=nt,
             classes=["prot:" + A["prot"], "nsvc:%d" % sh["nsvc"], "nss:%d" % sh["nss"]]
             + [k for k in ("hdr", "faults", "pt", "custom", "inh") if sh[k]]
             + ["style:" + s for s in sh["styles"]])
    return fails


def _first_diff(a, b):
    for i, (x, y) in enumerate(zip(a, b)):
        if x != y:
            return "at byte %d: ...%r... vs ...%r..." % (i, a[max(0, i - 60):i + 60], b[max(0, i - 60):i + 60])
    return "lengths %d vs %d" % (len(a), len(b))


def shards(tier):
    n = 250 if tier == "quick" else 2500
    return [{"kind": "hyp", "i": i, "n": n} for i in range(16)]


def run_shard(shard, rec):
    specs = []

    def one(A):
        r = run_case(A, rec)
        if len(specs) < (40 if rec.tier == "quick" else 400):
            specs.append(A)
        return r
    rec.hyp(cases(rec.tier), one, shard["n"])
    if getattr(rec, "_target_sig", None) is not None and not str(rec._target_sig).startswith("C07|nondeterministic|hashseed"):
        return
    # determinism across hash seeds: the collected specs are rebuilt in fresh interpreters
    if specs:
        base = [digest_of(A) for A in specs]
        for sd in SEEDS:
            other = hashseed_digests(specs, sd)
            for A, d0, d1 in zip(specs, base, other):
                rec.count("hashseed_rebuilds")
                if d0 != d1:
                    rec.fail("C07|nondeterministic|hashseed",
                             "WSDL bytes differ between this process and a fresh one with "
                             "PYTHONHASHSEED=%s (sha256 %s vs %s)" % (sd, d0[:12], d1[:12]), A)


class _NullRec(object):
    tier = "quick"

    def case(self, *a, **k):
        pass

    def count(self, *a, **k):
        pass

    def fail(self, *a, **k):
        pass


def replay(case):
    fails = run_case(case, _NullRec())
    try:
        d0 = digest_of(case)
        for sd in SEEDS:
            if hashseed_digests([case], sd)[0] != d0:
                fails.append(("C07|nondeterministic|hashseed", "digest differs under PYTHONHASHSEED=%s" % sd))
                break
    except Exception as e:
        fails.append(("C07|build-raises|replay", repr(e)))
    return fails


if __name__ == "__main__":
    if len(sys.argv) == 3 and sys.argv[1] == "--digests":
        env.assert_tree()
        with open(sys.argv[2]) as fp:
            specs_ = json.load(fp)
        print(json.dumps([digest_of(A) for A in specs_]))
