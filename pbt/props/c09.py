"""C09 — Faults arrive intact, are classified correctly and never leak internals.

case = (output protocol, transport, what the user function raises)
  Fault family : built-in fault classes and generated subclasses, codes Client|Server (+ any
                 first segment for the open-vocabulary protocols) with 0-3 dotted sub-codes,
                 Unicode messages, nested detail dicts
  other        : non-Fault exceptions (built-in and generated classes) whose message, args,
                 __str__, __repr__, class name and a frame-local variable carry secret tokens
Oracle: independent per-protocol fault decoders -> same code, message, detail; the scripted
return value is absent; HTTP status per the documented table; for non-Fault exceptions the
reply is Server / 'Internal Error' and no token occurs anywhere in body or headers.
"""
import base64
import json
import urllib.parse

import msgpack
import yaml
from hypothesis import strategies as st
from lxml import etree

from .. import build, drive, lex
from .. import findings as F

PROPERTY = "C09"
RULE = ("cases = (output protocol in {xml,soap11,soap12,json,yaml,msgpack,msgpackrpc,http}, "
        "transport in {pipeline, wsgi}, raised object): Fault classes with generated codes / "
        "Unicode messages / nested detail dicts, or non-Fault exceptions carrying secret tokens; "
        "oracle = independent fault decoders + documented HTTP status table + token search "
        "(plain, base64, hex, percent, JSON-escaped). Non-trivial = sub-code depth >= 1 or "
        "non-ASCII message or non-empty detail or non-Fault exception; distinct = hash of "
        "(protocol, transport, fault class, code shape, message class, detail shape)")
ASSUMPTIONS = [
    "the spyne client leg compares messages modulo surrounding whitespace (its SOAP fault readers "
    "strip the text); a whitespace-only message may arrive as the default message (class name)",
    "HttpRpc's documented fault body 'code\\n\\nmessage' has no detail slot: detail is not "
    "compared there",
    "SOAP 1.2 has a closed top-level vocabulary: only Client/Server first segments are generated",
    "detail dictionaries use NCName keys and str / dict / list-of-str values (what the XML "
    "rendering of a detail dict can carry)",
]
MAXTASKSPERCHILD = 8

SOAP11 = "http://schemas.xmlsoap.org/soap/envelope/"
SOAP12 = "http://www.w3.org/2003/05/soap-envelope"
PROTS = ["xml", "soap11", "soap12", "json", "yaml", "msgpack", "msgpackrpc", "http"]
BUILTIN = ["Fault", "ValidationError", "ResourceNotFoundError", "RequestTooLongError",
           "RequestNotAllowed", "InvalidCredentialsError", "ArgumentError", "InternalError",
           "SubFault",
           # generated subclasses of the dedicated errors, and the one the library ships
           "Sub:ResourceNotFoundError", "Sub:RequestTooLongError", "Sub:RequestNotAllowed",
           "Sub:InvalidCredentialsError", "Sub:ValidationError", "RespawnError"]
EXC_TYPES = ["ValueError", "KeyError", "RuntimeError", "ZeroDivisionError", "OSError",
             "UnicodeDecodeError", "Generated"]
NCNAME = st.text("abcdefghijklmnopqrstuvwxyzABCXYZ", min_size=1, max_size=8)
RET_TOKEN = "RETVALTOKEN7f3a9c"


def details(depth=0):
    leaf = st.one_of(lex.xml_text(1, 12).filter(lambda s: s.strip() == s and s != ""),
                     st.lists(st.text("abcXYZ019", min_size=1, max_size=6), min_size=2, max_size=3))
    if depth >= 2:
        val = leaf
    else:
        val = st.one_of(leaf, leaf, st.deferred(lambda: details(depth + 1)))
    return st.dictionaries(NCNAME, val, min_size=1, max_size=3)


def cases(tier):
    @st.composite
    def one(draw):
        prot = draw(st.sampled_from(PROTS))
        transport = draw(st.sampled_from(["pipeline", "wsgi"]))
        if draw(st.integers(0, 3)) == 0:
            toks = ["SECRET%s%04dX" % (k, draw(st.integers(0, 9999))) for k in "MASRCL"]
            raised = {"kind": "exc", "etype": draw(st.sampled_from(EXC_TYPES)), "tokens": toks}
        else:
            cls = draw(st.sampled_from(BUILTIN))
            first = ["Client", "Client", "Server"]
            if prot != "soap12":
                first.append(draw(NCNAME))
                # look-alikes of the two reserved heads (classification must be exact)
                first.append(draw(st.sampled_from(["Clientx", "ClientError", "client", "CLIENT",
                                                   "Clien", "Servers", "server", "Sender"])))
            code = ".".join([draw(st.sampled_from(first))] +
                            draw(st.lists(NCNAME, min_size=0, max_size=3)))
            msg = draw(st.one_of(lex.xml_text(1, 30), st.sampled_from(
                ["simple", "ünïcödé ✓ \U0001F600", "<b>&amp;</b>", "x" * 300, " lead", "a\nb"])))
            det = draw(st.one_of(st.none(), st.none(), details()))
            raised = {"kind": "fault", "cls": cls, "code": code, "msg": msg, "detail": det}
        # earlier calls served by the SAME application / protocol instances before the judged
        # one: a plain Fault of the other category, a crash, a dedicated error
        prelude = draw(st.lists(st.sampled_from(["client", "server", "crash", "notfound"]),
                                min_size=0, max_size=2)) if draw(st.integers(0, 2)) == 0 else []
        # the function answers in another protocol than the application default by assigning
        # ctx.out_protocol (documented in examples/response_as_file_dynamic.py)
        override = None
        if transport == "wsgi" and prot != "soap12" and draw(st.integers(0, 4)) == 0:
            override = draw(st.sampled_from([p for p in ("xml", "soap11", "json", "yaml") if p != prot]))
        return {"prot": prot, "transport": transport, "raised": raised, "prelude": prelude,
                "override": override,
                # the method is a generator (declared Iterable) raising before its first yield
                # (through the real WSGI transport only: it is the transport that drives a
                # generator up to its first yield before committing to a response)
                "gen": (transport == "wsgi" or prot == "http") and draw(st.integers(0, 2)) == 0,
                "tns": "urn:c09x%08x" % draw(st.integers(0, 2 ** 32 - 1))}
    return one()


def _protocols(p):
    from spyne.protocol.xml import XmlDocument
    from spyne.protocol.soap import Soap11, Soap12
    from spyne.protocol.json import JsonDocument
    from spyne.protocol.yaml import YamlDocument
    from spyne.protocol.msgpack import MessagePackDocument, MessagePackRpc
    from spyne.protocol.http import HttpRpc
    m = {"xml": XmlDocument, "soap11": Soap11, "soap12": Soap12, "json": JsonDocument,
         "yaml": YamlDocument, "msgpack": MessagePackDocument, "msgpackrpc": MessagePackRpc,
         "http": HttpRpc}
    return m[p](), m[p]()


def make_raiser(raised):
    """-> (callable raising the scripted object, expected (code, msg, detail) or None, class)"""
    from spyne import error
    from spyne.model.fault import Fault
    if raised["kind"] == "fault":
        c, code, msg, det = raised["cls"], raised["code"], raised["msg"], raised["detail"]
        if c == "Fault":
            inst = Fault(code, msg, detail=det)
        elif c == "SubFault":
            Sub = type("SubFault", (Fault,), {"__namespace__": "urn:c09faults"})
            inst = Sub(code, msg, detail=det)
        elif c.startswith("Sub:"):
            base = getattr(error, c[4:])
            Sub = type("My" + c[4:], (base,), {})
            inst = Sub(msg, det) if c[4:] == "InvalidCredentialsError" else Sub(msg)
        elif c == "RespawnError":
            inst = error.RespawnError(msg)
        elif c == "ValidationError":
            inst = error.ValidationError(msg)
        elif c == "ResourceNotFoundError":
            inst = error.ResourceNotFoundError(msg)
        elif c == "RequestTooLongError":
            inst = error.RequestTooLongError(msg)
        elif c == "RequestNotAllowed":
            inst = error.RequestNotAllowed(msg)
        elif c == "InvalidCredentialsError":
            inst = error.InvalidCredentialsError(msg, det)
        elif c == "ArgumentError":
            inst = error.ArgumentError(msg)
        elif c == "InternalError":
            inst = error.InternalError(msg)
        exp = (inst.faultcode, inst.faultstring, inst.detail)

        def fn(ctx, args):
            raise inst
        dedicated = [b for b in ("RequestTooLongError", "ResourceNotFoundError", "RequestNotAllowed",
                                 "InvalidCredentialsError") if isinstance(inst, getattr(error, b))]
        return fn, exp, (getattr(error, dedicated[0]) if dedicated else type(inst))
    tm, ta, ts, tr, tc, tl = raised["tokens"]
    et = raised["etype"]
    if et == "Generated":
        cls = type(tc, (Exception,), {"__str__": lambda self: ts, "__repr__": lambda self: tr})
        mk = lambda: cls(tm, ta)
    elif et == "UnicodeDecodeError":
        mk = lambda: UnicodeDecodeError("utf8", tm.encode(), 0, 1, ta)
    elif et == "OSError":
        mk = lambda: OSError(13, tm, "/" + ta)
    else:
        mk = lambda: getattr(__builtins__, et, None)(tm, ta) if not isinstance(__builtins__, dict) \
            else __builtins__[et](tm, ta)

    def fn(ctx, args):
        local_secret = tl       # noqa: F841  (a frame-local that a traceback dump would show)
        raise mk()
    return fn, None, None


# ---------------------------------------------------------------- decoders
def _detail_from_xml(el):
    kids = [c for c in el if isinstance(c.tag, str)]
    if not kids:
        return el.text or ""
    d = {}
    for c in kids:
        tag = etree.QName(c).localname
        v = _detail_from_xml(c)
        if tag in d:
            if not isinstance(d[tag], list):
                d[tag] = [d[tag]]
            d[tag].append(v)
        else:
            d[tag] = v
    return d


def decode_fault(prot, body):
    """-> (code, message, detail or None); raises ValueError if the body is no fault document"""
    if prot in ("xml", "soap11", "soap12"):
        doc = etree.fromstring(body)
        ns = SOAP12 if prot == "soap12" else SOAP11
        if prot == "xml":
            f = doc if doc.tag == "{%s}Fault" % ns else None
        else:
            if doc.tag != "{%s}Envelope" % ns:
                raise ValueError("root is %s" % doc.tag)
            b = doc.find("{%s}Body" % ns)
            f = b.find("{%s}Fault" % ns) if b is not None else None
        if f is None:
            raise ValueError("no Fault element")
        if prot == "soap12":
            code = f.find("{%s}Code" % ns)
            parts = [code.find("{%s}Value" % ns).text]
            sub = code.find("{%s}Subcode" % ns)
            while sub is not None:
                parts.append(sub.find("{%s}Value" % ns).text)
                sub = sub.find("{%s}Subcode" % ns)
            head = parts[0].split(":", 1)[-1]
            head = {"Sender": "Client", "Receiver": "Server"}.get(head, head)
            msg = f.find("{%s}Reason/{%s}Text" % (ns, ns)).text
            det = f.find("{%s}Detail" % ns)
            dd = None
            if det is not None:
                dd = _detail_from_xml(det)
                if isinstance(dd, dict) and list(dd) == ["detail"]:
                    dd = dd["detail"]
            return ".".join([head] + parts[1:]), msg, dd
        code = f.find("faultcode").text
        code = code.split(":", 1)[1] if ":" in code else code
        msg = f.find("faultstring").text
        det = f.find("detail")
        return code, msg, (None if det is None else _detail_from_xml(det))
    if prot == "http":
        code, _, msg = body.partition(b"\n\n")
        return code.decode("utf8"), msg.decode("utf8"), None

    def s(x):
        return x.decode("utf8") if isinstance(x, bytes) else x

    def norm(x):
        if isinstance(x, dict):
            return {s(k): norm(v) for k, v in x.items()}
        if isinstance(x, (list, tuple)):
            return [norm(v) for v in x]
        return s(x)
    if prot == "json":
        d = json.loads(body.decode("utf8"))
    elif prot == "yaml":
        d = yaml.safe_load(body.decode("utf8"))
    else:
        d = msgpack.unpackb(body, raw=False, strict_map_key=False)
        if prot == "msgpackrpc":
            if not isinstance(d, (list, tuple)) or len(d) != 3 or d[0] != 3:
                raise ValueError("not a msgpack-rpc error message: %r" % (d,))
            d = d[2]
    d = norm(d)
    if isinstance(d, list) and len(d) == 4 and isinstance(d[0], str):
        # complex_as=list: [faultcode, faultstring, faultactor, detail]
        return d[0], d[1], (d[3] if d[3] != "" else None)
    if not isinstance(d, dict) or "faultcode" not in d:
        raise ValueError("not a fault document: %r" % (d,))
    return d["faultcode"], d.get("faultstring"), d.get("detail")


def norm_detail(d):
    """what an XML rendering of a detail dict can carry: everything is text"""
    if d is None:
        return None
    if isinstance(d, dict):
        return {k: norm_detail(v) for k, v in d.items()}
    if isinstance(d, (list, tuple)):
        return [norm_detail(v) for v in d]
    return str(d)


def expected_status(prot, cls_name, code):
    if prot in ("soap11", "soap12"):
        return "500"
    table = {"RequestTooLongError": "413", "ResourceNotFoundError": "404",
             "RequestNotAllowed": "405", "InvalidCredentialsError": "401"}
    if cls_name in table:
        return table[cls_name]
    if code == "Client" or code.startswith("Client."):
        return "400"
    return "500"


def token_forms(tok):
    b = tok.encode("utf8")
    return [b, base64.b64encode(b), b.hex().encode(), urllib.parse.quote(tok).encode(),
            json.dumps(tok)[1:-1].encode(), tok.lower().encode(), tok.upper().encode()]


def run_case(case, rec):
    from spyne import rpc, Service, Application
    from spyne.model.primitive import Unicode
    from spyne.server.wsgi import WsgiApplication
    fails = []
    prot, tr, raised = case["prot"], case["transport"], case["raised"]
    inp, outp = _protocols(prot)
    calls = []
    try:
        raiser, exp, fcls = make_raiser(raised)
    except Exception as e:
        fails.append(("C09|harness|%s" % type(e).__name__, repr(e)))
        rec.case(case, failures=fails)
        return fails

    from spyne.model.fault import Fault as _F
    from spyne import error as _E
    pre = []
    for kind in case.get("prelude") or []:
        if kind == "client":
            pre.append(lambda: _F("Client.Earlier", "earlier client fault"))
        elif kind == "server":
            pre.append(lambda: _F("Server.Earlier", "earlier server fault"))
        elif kind == "notfound":
            pre.append(lambda: _E.ResourceNotFoundError("earlier"))
        else:
            pre.append(lambda: ZeroDivisionError("earlier crash"))
    queue = list(pre)

    ocls = None
    if case.get("override"):
        ocls = type(_protocols(case["override"])[1])

    def m0(ctx, s):
        if ocls is not None:
            ctx.out_protocol = ocls()
        if queue:
            raise queue.pop(0)()
        calls.append(s)
        raiser(ctx, (s,))
        return RET_TOKEN

    def g0(ctx, s):
        if queue:
            raise queue.pop(0)()
        calls.append(s)
        raiser(ctx, (s,))
        yield RET_TOKEN

    if case.get("gen") and not case.get("override"):
        from spyne.model.complex import Iterable
        Svc = type("Svc", (Service,), {"m0": rpc(Unicode, _returns=Iterable(Unicode), _args=["s"])(g0)})
    else:
        Svc = type("Svc", (Service,), {"m0": rpc(Unicode, _returns=Unicode, _args=["s"])(m0)})
    app = Application([Svc], tns=case["tns"], in_protocol=inp, out_protocol=outp,
                      name="C09App")
    tns = case["tns"]
    if prot == "xml":
        body = ('<m0 xmlns="%s"><s>x</s></m0>' % tns).encode()
    elif prot in ("soap11", "soap12"):
        ns = SOAP11 if prot == "soap11" else SOAP12
        body = ('<e:Envelope xmlns:e="%s"><e:Body><m0 xmlns="%s"><s>x</s></m0></e:Body>'
                '</e:Envelope>' % (ns, tns)).encode()
    elif prot == "json":
        body = b'{"m0": {"s": "x"}}'
    elif prot == "yaml":
        body = b"m0:\n  s: x\n"
    elif prot == "msgpack":
        body = msgpack.packb({b"m0": {b"s": "x"}})
    elif prot == "msgpackrpc":
        body = msgpack.packb([0, 1, "m0", ["x"]])
    else:
        body = b""
    status = None
    headers = []
    if prot == "http" or tr == "wsgi":
        w = WsgiApplication(app)
        if prot == "http":
            env_ = drive.environ("GET", "/m0", "s=x", content_type=None, content_length=None)
        else:
            ct = {"soap12": "application/soap+xml; charset=utf-8", "json": "application/json",
                  "yaml": "text/yaml", "msgpack": "application/x-msgpack",
                  "msgpackrpc": "application/x-msgpack"}.get(prot, "text/xml; charset=utf-8")
            env_ = drive.environ("POST", "/", "", body, content_type=ct)
        for _ in pre:
            if prot == "http":
                drive.wsgi_call(w, drive.environ("GET", "/m0", "s=x", content_type=None,
                                                 content_length=None))
            else:
                drive.wsgi_call(w, drive.environ("POST", "/", "", body, content_type=ct))
        res = drive.wsgi_call(w, env_)
        if res.escaped is not None:
            et, where = F.exc_origin(res.escaped)
            fails.append(("C09|escaped|%s|%s|%s" % (et, where, raised["kind"]),
                          "%s/%s: %r escaped the WSGI callable" % (prot, tr, res.escaped)))
            rec.case(case, failures=fails, nontrivial=_nt(case))
            return fails
        try:
            out_bytes = b"".join(c if isinstance(c, bytes) else c.encode("utf8") for c in res.chunks)
        except Exception:
            out_bytes = b""
        status = (res.status or "")[:3]
        headers = res.headers or []
    else:
        for _ in pre:
            drive.server_call(app, body)
        out = drive.server_call(app, body)
        if out.escaped is not None:
            et, where = F.exc_origin(out.escaped[0])
            fails.append(("C09|escaped|%s|%s|%s" % (et, where, raised["kind"]),
                          "%s/%s: %r escaped from %s" % (prot, tr, out.escaped[0], out.escaped[1])))
            rec.case(case, failures=fails, nontrivial=_nt(case))
            return fails
        out_bytes = out.out_bytes
    where = "%s/%s" % (prot, tr)
    if case.get("override"):
        # the reply is judged by the rules of the protocol it is written in
        where += "->" + case["override"]
        prot = case["override"]
    if len(calls) != 1:
        fails.append(("C09|function-calls!=1|%s" % prot, "%s: function ran %d times" % (where, len(calls))))
    # (Hypothesis reuses string constants of this module: a generated message or detail may
    # itself be the token, which then rightly is in the reply)
    if RET_TOKEN.encode() in out_bytes and RET_TOKEN not in json.dumps(raised, default=str):
        fails.append(("C09|return-value-sent|%s" % prot, "%s: the return value is in the reply" % where))
    try:
        code, msg, det = decode_fault(prot, out_bytes)
    except Exception as e:
        fails.append(("C09|reply-not-a-fault|%s|%s" % (prot, raised["kind"]),
                      "%s: cannot decode a fault from %r: %r" % (where, out_bytes[:400], e)))
        rec.case(case, failures=fails, nontrivial=_nt(case))
        return fails
    if raised["kind"] == "fault":
        ecode, emsg, edet = exp
        if code != ecode:
            fails.append(("C09|code-differs|%s|%s" % (prot, _code_shape(ecode)),
                          "%s: raised code %r, client sees %r" % (where, ecode, code)))
        if msg != emsg:
            fails.append(("C09|message-differs|%s|%s" % (prot, _msg_class(emsg)),
                          "%s: raised message %r, client sees %r" % (where, emsg, msg)))
        if prot != "http":
            if prot in ("xml", "soap11", "soap12"):
                same = norm_detail(det) == norm_detail(edet)
            else:
                same = det == edet
            if not same:
                fails.append(("C09|detail-differs|%s|%s" % (prot, "none" if edet is None else "dict"),
                              "%s: raised detail %r, client sees %r" % (where, edet, det)))
        if status is not None:
            es = expected_status(prot, fcls.__name__, ecode)
            if status != es:
                fails.append(("C09|http-status|%s|%s|%s!=%s" % (prot if prot.startswith("soap") else "nonsoap",
                                                                raised["cls"], status, es),
                              "%s: %s raised with code %r -> HTTP %s, documented %s"
                              % (where, raised["cls"], ecode, status, es)))
    else:
        if code != "Server":
            fails.append(("C09|nonfault-code|%s" % prot, "%s: code %r for a non-Fault exception" % (where, code)))
        if msg != "Internal Error":
            fails.append(("C09|nonfault-message|%s" % prot, "%s: message %r for a non-Fault exception" % (where, msg)))
        if prot != "http" and det not in (None, "", {}):
            fails.append(("C09|nonfault-detail|%s" % prot, "%s: detail %r for a non-Fault exception" % (where, det)))
        hay = out_bytes + b"\n" + repr(headers).encode("utf8")
        names = ["message", "args", "str", "repr", "classname", "local"]
        for name, tok in zip(names, raised["tokens"]):
            if any(f in hay for f in token_forms(tok)):
                fails.append(("C09|leak|%s|%s" % (prot, name),
                              "%s: the %s of a %s exception is in the reply: %r"
                              % (where, name, raised["etype"], out_bytes[:400])))
        if status is not None and status != "500":
            fails.append(("C09|http-status|%s|nonfault|%s!=500" % (prot, status),
                          "%s: HTTP %s for a non-Fault exception" % (where, status)))
    # the spyne client (protocols that can parse faults) must surface the same fault
    if prot in ("soap11", "soap12") and tr == "pipeline":
        del calls[:]
        creq, cout, cres, cerr = drive.loopback_call(app, "m0", ["x"])
        from spyne.model.fault import Fault as _F
        if not isinstance(cerr, _F):
            fails.append(("C09|client-no-fault|%s|%s" % (prot, raised["kind"]),
                          "%s: the spyne client returned %r / raised %r instead of a Fault" % (where, cres, cerr)))
        else:
            want = exp if raised["kind"] == "fault" else ("Server", "Internal Error", None)
            ccode = cerr.faultcode.split(":", 1)[-1] if prot == "soap11" else cerr.faultcode
            if prot == "soap12":
                head, _, rest = ccode.partition(".")
                head = {"Sender": "Client", "Receiver": "Server"}.get(head.split(":")[-1], head)
                ccode = head + ("." + rest if rest else "")
            if ccode != want[0]:
                fails.append(("C09|client-code-differs|%s|%s" % (prot, _code_shape(want[0])),
                              "%s: raised code %r, the spyne client sees %r" % (where, want[0], cerr.faultcode)))
            # the SOAP fault readers strip the text (tolerant of pretty-printed documents);
            # a whitespace-only message then is an empty one, which Fault() replaces by the
            # class name at construction
            wmsg = (want[1] or "").strip()
            if (cerr.faultstring or "").strip() != wmsg and not (
                    wmsg == "" and cerr.faultstring == type(cerr).__name__):
                fails.append(("C09|client-message-differs|%s|%s" % (prot, _msg_class(want[1])),
                              "%s: raised message %r, the spyne client sees %r" % (where, want[1], cerr.faultstring)))
            if raised["kind"] == "exc":
                blob = repr((cerr.faultcode, cerr.faultstring, getattr(cerr, "faultactor", None))).encode("utf8")
                if any(f in blob for tok in raised["tokens"] for f in token_forms(tok)):
                    fails.append(("C09|leak|%s|client" % prot, "%s: a token reached the client fault %r" % (where, cerr)))
    rec.case(case, failures=fails, nontrivial=_nt(case),
             classes=["prot:" + prot, "transport:" + tr, "kind:" + raised["kind"],
                      "cls:" + raised.get("cls", raised.get("etype", "?"))])
    return fails


def _code_shape(code):
    parts = code.split(".")
    head = parts[0] if parts[0] in ("Client", "Server") else "Other"
    return "%s+%d" % (head, len(parts) - 1)


def _msg_class(m):
    if any(ord(c) > 127 for c in m):
        return "nonascii"
    if m != m.strip():
        return "edge_ws"
    if any(c in m for c in "<>&"):
        return "markup"
    if any(c in m for c in "\n\t"):
        return "ctrl_ws"
    return "plain"


def _nt(case):
    r = case["raised"]
    if r["kind"] == "exc":
        return {"p": case["prot"], "t": case["transport"], "e": r["etype"]}
    depth = len(r["code"].split(".")) - 1
    if depth >= 1 or r["detail"] or any(ord(c) > 127 for c in r["msg"]):
        return {"p": case["prot"], "t": case["transport"], "c": r["cls"],
                "code": _code_shape(r["code"]), "msg": _msg_class(r["msg"]),
                "detail": _detail_shape(r["detail"])}
    return None


def _detail_shape(d):
    if d is None:
        return "none"
    if isinstance(d, dict):
        return "{%s}" % ",".join(sorted(set(_detail_shape(v) for v in d.values())))
    if isinstance(d, list):
        return "list"
    return "str"


def shards(tier):
    n = 2500 if tier == "quick" else 40000
    return [{"kind": "hyp", "i": i, "n": n} for i in range(16)]


def run_shard(shard, rec):
    rec.hyp(cases(rec.tier), lambda case: run_case(case, rec), shard["n"])


class _NullRec(object):
    tier = "quick"

    def case(self, *a, **k):
        pass

    def count(self, *a, **k):
        pass


def replay(case):
    return run_case(case, _NullRec())
