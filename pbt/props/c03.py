"""C03 — HttpRpc flat key/value fidelity.

Parts
  req  : arguments -> reference flattening -> query string (permuted pairs, sparse or
         contiguous indices, hier_delim, strict_arrays, validator) -> WSGI GET -> the user
         function must receive exactly those values, every array in index order.
  rt   : object -> object_to_simple_dict -> reference parse of the flat form == object, and
         simple_dict_to_object(object_to_simple_dict(x)) == x
  ret  : a single primitive return value is sent as its exact text / bytes; a declared
         out-header class is sent as HTTP headers.
"""
import datetime as dtm
import itertools

from hypothesis import strategies as st

from .. import build, drive, spec, values, ref_flat, jv
from .. import findings as F
from ..spec import PRIM_KIND
from .c01 import shape_of, _diff_class, _fault_class

PROPERTY = "C03"
RULE = ("cases = (generated universe, method signature of primitives / primitive arrays / "
        "nested objects / arrays of objects, values, permutation of the query pairs that keeps "
        "equal keys in order, contiguous or sparse increasing indices, hier_delim, strict_arrays, "
        "validator) through WsgiApplication GET; plus object<->flat dict round trips and "
        "primitive return bodies. Non-trivial = array of objects with >=2 elements or nested "
        "array or sparse indices, together with a non-identity permutation; distinct = hash of "
        "(value classes, permutation class, index style, config)")
ASSUMPTIONS = [
    "POST form bodies need werkzeug, which is not installed: only the query-string spelling "
    "is exercised (the flattening code is shared)",
    "a flat key/value form cannot spell None, an empty string, an empty primitive array or an "
    "object without any leaf: those are identified with absence (values normalised before "
    "comparison) and leafless elements of object arrays are not generated",
    "sparse indices are only sent with strict_arrays=False (strict mode documents contiguous "
    "indices)",
]
MAXTASKSPERCHILD = 4
DELIMS = [".", ".", "_", "-", "/"]


def _names(case_m, U):
    s = set(a for a, _ in case_m["args"])
    for c in U["classes"]:
        s.update(f for f, _ in c["fields"])
    return s


def _no_leafless_elements(U, t, v):
    """every element of an array of objects must own a leaf"""
    cs = {c["name"]: c for c in U["classes"]}

    def fields(n):
        c = cs[n]
        return (fields(c["extends"]) if c["extends"] else []) + c["fields"]

    def go(t, v):
        if v is None:
            return True
        occ = t.get("occ") or {}
        multi = occ.get("max", 1) != 1
        if multi or t["k"] == "array":
            inner = dict(t, occ=dict(occ, max=1)) if multi else t["of"]
            if inner["k"] == "ref":
                return all(x is not None and ref_flat.has_leaf(U, inner, x) and go(inner, x) for x in v)
            return all(x is not None for x in v)
        if t["k"] == "ref":
            if (occ.get("min", 0) >= 1) and not ref_flat.has_leaf(U, t, v):
                return False      # a mandatory object without any leaf cannot be spelled
            return all(go(ft, v["f"].get(fn)) for fn, ft in fields(v.get("$obj", t["n"])))
        return True
    return go(t, v)


def _deep_universe(draw):
    """orders[i].customer.address.city: an array of objects with two further nesting levels,
    every level populated (the flat notation spells the whole path for every leaf)"""
    occ1 = {"min": 0, "max": 1, "nillable": True}
    salt = draw(st.integers(0, 2 ** 32 - 1))
    tns = "urn:t%08x" % salt
    leaf = [["city", {"k": "prim", "t": "Unicode", "f": {}, "occ": dict(occ1, min=draw(st.sampled_from([0, 1])))}],
            ["zip", {"k": "prim", "t": "Integer", "f": {}, "occ": occ1}]]
    U = {"tns": tns, "nss": [tns], "enums": [], "classes": [
        {"name": "C0", "ns": tns, "extends": None, "fields": leaf},
        {"name": "C1", "ns": tns, "extends": None,
         "fields": [["name", {"k": "prim", "t": "Unicode", "f": {}, "occ": occ1}],
                    ["address", {"k": "ref", "n": "C0", "occ": dict(occ1, min=draw(st.sampled_from([0, 1])))}]]},
        {"name": "C2", "ns": tns, "extends": None,
         "fields": [["id", {"k": "prim", "t": "Integer", "f": {}, "occ": occ1}],
                    ["customer", {"k": "ref", "n": "C1", "occ": occ1}]]}]}
    shape = draw(st.sampled_from(["array", "multi"]))
    t = {"k": "array", "of": {"k": "ref", "n": "C2"}, "occ": occ1} if shape == "array" else \
        {"k": "ref", "n": "C2", "occ": {"min": 0, "max": "unbounded", "nillable": True}}
    m = {"name": "m0", "args": [["orders", t]], "ret": [], "style": "wrapped"}
    return U, m


def cases(tier):
    @st.composite
    def one(draw):
        deep = draw(st.integers(0, 7)) == 0
        if deep:
            U, m = _deep_universe(draw)
        else:
            U = draw(spec.universes(max_classes=3, xml=False, multi_ns=False))
            m = draw(spec.methods(U, name="m0", styles=("wrapped",), xml=False, multi_ret=False))
        # one primitive return (or none)
        if not deep and draw(st.booleans()):
            m["ret"] = [dict(draw(spec.prim_trefs(facets=False)), occ={"min": 0, "max": 1, "nillable": True})]
        else:
            m["ret"] = []
        vg = values.ValueGen(U, special_floats=False, full=deep)
        vg.nil_unspellable = True
        args = []
        for _, t in m["args"]:
            v = draw(vg.value(t).filter(lambda v, t=t: _no_leafless_elements(U, t, v)))
            args.append(v)
        rets = [draw(vg.single(t)) for t in m["ret"]]
        names = _names(m, U)
        delims = [d for d in DELIMS if not any(d in n for n in names)]
        strict = draw(st.booleans())
        oh = None
        if draw(st.integers(0, 2)) == 0:
            # a declared out-header class: its members are sent as HTTP response headers
            occ1 = {"min": 0, "max": 1, "nillable": True}
            pool = [["Xtext", {"k": "prim", "t": "Unicode", "f": {}, "occ": occ1}],
                    ["Xcount", {"k": "prim", "t": "Integer", "f": {}, "occ": occ1}],
                    ["Xflag", {"k": "prim", "t": "Boolean", "f": {}, "occ": occ1}],
                    ["Expires", {"k": "prim", "t": "DateTime", "f": {}, "occ": occ1}]]
            fields = draw(st.lists(st.sampled_from(pool), min_size=1, max_size=4, unique_by=lambda x: x[0]))
            U["classes"].append({"name": "RespHdr", "ns": U["tns"], "extends": None, "fields": fields})
            m["out_header"] = ["RespHdr"]
            hv = {}
            for fn, ft in fields:
                if fn == "Xtext":
                    hv[fn] = draw(st.text("abcXYZ019 -_.;=/,", min_size=1, max_size=20)
                                  .map(str.strip).filter(bool))
                elif fn == "Xcount":
                    hv[fn] = jv.enc(draw(st.integers(-10 ** 20, 10 ** 20)))
                elif fn == "Xflag":
                    hv[fn] = draw(st.booleans())
                else:
                    hv[fn] = jv.enc(dtm.datetime(2000, 1, 1, tzinfo=dtm.timezone.utc) +
                                    dtm.timedelta(seconds=draw(st.integers(0, 6 * 10 ** 9))))
            oh = {"$obj": "RespHdr", "f": hv}
        return {"U": U, "m": m, "args": args, "rets": rets, "oh": oh,
                "delim": draw(st.sampled_from(delims)),
                "strict": strict,
                "sparse": (not strict) and draw(st.booleans()),
                "perm": draw(st.integers(0, 10 ** 6)),
                "validator": draw(st.sampled_from([None, "soft"])),
                # another HttpRpc instance with a different hier_delim decodes the same classes
                # first (two endpoints publishing one service)
                "nb": draw(st.integers(0, 3)) == 0,
                "part": "req"}
    return one()


def _strip_empty_text(U, t, v):
    """'' cannot be told from absent in a query string: normalise expected '' to None"""
    cs = {c["name"]: c for c in U["classes"]}

    def fields(n):
        c = cs[n]
        return (fields(c["extends"]) if c["extends"] else []) + c["fields"]

    def go(t, v):
        if v is None:
            return None
        occ = t.get("occ") or {}
        multi = occ.get("max", 1) != 1
        if multi or t["k"] == "array":
            inner = dict(t, occ=dict(occ, max=1)) if multi else t["of"]
            return [go(inner, x) for x in v]
        if t["k"] == "ref":
            return {"$obj": v.get("$obj", t["n"]),
                    "f": {fn: go(ft, v["f"].get(fn)) for fn, ft in fields(v.get("$obj", t["n"]))
                          if go(ft, v["f"].get(fn)) is not None}}
        return v
    return go(t, v)


def permute(pairs, seed):
    """a permutation of the pairs that keeps the relative order of equal keys (the only
    carrier of primitive-array order); deterministic in `seed`"""
    n = len(pairs)
    order = list(range(n))
    # Fisher-Yates driven by the seed digits (no RNG: pure function of the case)
    s = seed
    for i in range(n - 1, 0, -1):
        j = s % (i + 1)
        s = s // (i + 1) + 7919 * (i + 1)
        order[i], order[j] = order[j], order[i]
    shuffled = [pairs[i] for i in order]
    # restore relative order among equal keys
    by_key = {}
    for k, v in pairs:
        by_key.setdefault(k, []).append(v)
    out = []
    idx = {k: 0 for k in by_key}
    for k, _ in shuffled:
        out.append((k, by_key[k][idx[k]]))
        idx[k] += 1
    return out


def run_case(case, rec):
    from spyne.protocol.http import HttpRpc
    from spyne.server.wsgi import WsgiApplication
    fails = []
    U, m = case["U"], case["m"]
    cfg = "delim=%s/strict=%s/sparse=%s/%s" % (case["delim"], case["strict"], case["sparse"],
                                                 case["validator"])
    labs = shape_of(case)
    try:
        B = build.Built(U)
        R = build.Recorder()
        svc = build.make_service(B, "Svc", [m], R)
        app = build.make_app([svc], U["tns"],
                             HttpRpc(validator=case["validator"], hier_delim=case["delim"],
                                     strict_arrays=case["strict"]),
                             HttpRpc())
        rets = [B.to_native(t, j) for t, j in zip(m["ret"], case["rets"])]
        ohv = None
        if case.get("oh"):
            ohv = B.to_native({"k": "ref", "n": "RespHdr"}, case["oh"])

        def script(ctx, a):
            if ohv is not None:
                ctx.out_header = ohv
            return rets[0] if rets else None
        R.script[m["name"]] = script
        wsgi = WsgiApplication(app)
    except Exception as e:
        et, where = F.exc_origin(e)
        fails.append(("C03|build-raises|%s|%s" % (et, where), "building raised %r" % (e,)))
        rec.case(case, failures=fails, classes=["build_error"])
        return fails
    if case.get("nb"):
        names = _names(m, U)
        others = [d for d in DELIMS if d != case["delim"] and not any(d in n for n in names)]
        if others:
            od = others[case["perm"] % len(others)]
            try:
                nb_app = build.make_app([svc], U["tns"], HttpRpc(validator=case["validator"], hier_delim=od),
                                        HttpRpc())
                nb_pairs = ref_flat.Flat(U, od).request_pairs(m, case["args"], None)
                drive.wsgi_call(WsgiApplication(nb_app), drive.environ(
                    "GET", "/m0", ref_flat.query_string(nb_pairs), content_type=None, content_length=None))
            except Exception:
                rec.count("neighbour-build-failed")
            R.reset()
    fl = ref_flat.Flat(U, case["delim"])
    imap = (lambda i: 2 * i + 3) if case["sparse"] else None
    pairs = fl.request_pairs(m, case["args"], imap)
    ppairs = permute(pairs, case["perm"])
    qs = ref_flat.query_string(ppairs)
    res = drive.wsgi_call(wsgi, drive.environ("GET", "/m0", qs, content_type=None,
                                              content_length=None))
    permuted = ppairs != pairs
    many = max([0] + [len(v) for v in _arrays_of_objects(U, m, case["args"])])
    if res.escaped is not None:
        et, where = F.exc_origin(res.escaped)
        fails.append(("C03|escaped|%s|%s" % (et, where),
                      "%s: %r escaped the WSGI callable\nquery: %s" % (cfg, res.escaped, qs[:600])))
    elif not (res.status or "").startswith("200"):
        fails.append(("C03|rejected-conformant|strict=%s|%s|%s" % (case["strict"], case["validator"],
                                                                   (res.status or "")[:3]),
                      "%s: conformant request answered %s %r\nquery: %s"
                      % (cfg, res.status, res.body[:300], qs[:600])))
    else:
        if len(R.calls) != 1:
            fails.append(("C03|invocations!=1", "%s: function invoked %d times" % (cfg, len(R.calls))))
        else:
            _, got_args, _ = R.calls[0]
            for (an, at), g, e in zip(m["args"], got_args, case["args"]):
                exp = ref_flat.prune(U, at, _strip_empty_text(U, at, e))
                r = values.value_eq(B, at, g, exp, path=an, ident=values.Ident(
                    empty_seq_is_none=True, empty_bytes_is_none=True, empty_text_is_none=True))
                if r:
                    fails.append(("C03|request|%s" % _diff_class(at, r),
                                  "%s: argument differs: %s\nquery: %s" % (cfg, r, qs[:800])))
                    break
        # the declared out-header: one HTTP response header per member
        if case.get("oh"):
            got_h = {}
            for hk, hval in (res.headers or []):
                got_h.setdefault(hk, []).append(hval)
            for fn, j in sorted(case["oh"]["f"].items()):
                v = jv.dec(j)
                if fn == "Expires":
                    import email.utils
                    want = email.utils.format_datetime(v.astimezone(dtm.timezone.utc), usegmt=True)
                elif fn == "Xflag":
                    want = "true" if v else "false"
                else:
                    want = str(v)
                if got_h.get(fn) != [want]:
                    fails.append(("C03|out-header|%s" % fn,
                                  "%s: response header %s is %r, the function set %r (expected %r)"
                                  % (cfg, fn, got_h.get(fn), v, want)))
                    break
            if not all(isinstance(k, str) and isinstance(x, str) for k, xs in got_h.items() for x in xs):
                fails.append(("C03|out-header|not-str", "%s: header names/values must be str: %r"
                              % (cfg, res.headers)))
        # single primitive return: exact text / bytes
        if m["ret"]:
            rt, rv = m["ret"][0], case["rets"][0]
            if PRIM_KIND[rt["t"]] == "bytes":
                exp_body = jv.dec(rv)
            else:
                exp_body = ref_flat.leaf_text(rt, rv).encode("utf8")
            if not all(isinstance(c, bytes) for c in res.chunks):
                fails.append(("C03|return-chunk-not-bytes|%s" % rt["t"],
                              "%s: body chunks %r are not bytes" % (cfg, res.chunks[:3])))
            elif PRIM_KIND[rt["t"]] in ("dec", "double", "dt", "td", "time"):
                pass      # spelling of numbers/instants is C08's subject; exact text is
                #           asserted for types with one canonical spelling only
            elif res.body != exp_body:
                fails.append(("C03|return-body|%s" % rt["t"],
                              "%s: body %r, expected %r" % (cfg, res.body[:200], exp_body[:200])))
    nt = None
    nested = any(x in labs for x in ("nested_object", "wrapped_array>=2", "unwrapped_array>=2"))
    if permuted and (many >= 2 or case["sparse"] or nested):
        nt = {"labs": sorted(labs), "cfg": cfg, "many": min(many, 11)}
    rec.case(case, failures=fails, nontrivial=nt,
             classes=["cfg:" + cfg, "permuted:%s" % permuted, "objarray_len:%d" % min(many, 11),
                      "out_header:%s" % bool(case.get("oh"))]
             + ["val:" + x for x in labs])
    return fails


def _arrays_of_objects(U, m, args):
    cs = {c["name"]: c for c in U["classes"]}
    out = []

    def fields(n):
        c = cs[n]
        return (fields(c["extends"]) if c["extends"] else []) + c["fields"]

    def go(t, v):
        if v is None:
            return
        occ = t.get("occ") or {}
        multi = occ.get("max", 1) != 1
        if multi or t["k"] == "array":
            inner = dict(t, occ=dict(occ, max=1)) if multi else t["of"]
            if inner["k"] == "ref":
                out.append(v)
                for x in v:
                    go(inner, x)
            return
        if t["k"] == "ref":
            for fn, ft in fields(v.get("$obj", t["n"])):
                go(ft, v["f"].get(fn))
    for (an, t), v in zip(m["args"], args):
        go(t, v)
    return out


# ---------------------------------------------------------------- object <-> flat dict
def _empty_nested_objseqs(U, cname, v):
    import copy
    cs = {c["name"]: c for c in U["classes"]}

    def fields(n):
        c = cs[n]
        return (fields(c["extends"]) if c["extends"] else []) + c["fields"]

    def go(cn, obj, depth):
        for fn, ft in fields(obj.get("$obj", cn)):
            occ = ft.get("occ") or {}
            multi = occ.get("max", 1) != 1
            inner = ft["of"] if ft["k"] == "array" else ft
            x = obj["f"].get(fn)
            if (multi or ft["k"] == "array") and inner["k"] == "ref":
                if depth >= 1 and occ.get("min", 0) == 0:
                    obj["f"][fn] = []
                elif x:
                    for e in x:
                        if e is not None:
                            go(inner["n"], e, depth + 1)
            elif ft["k"] == "ref" and x is not None:
                go(ft["n"], x, depth + 1)
    v = copy.deepcopy(v)
    go(cname, v, 0)
    return v


def rt_cases(tier):
    @st.composite
    def one(draw):
        U = draw(spec.universes(max_classes=3, xml=False, multi_ns=False))
        if not U["classes"]:
            U["classes"] = [{"name": "C0", "ns": U["tns"], "extends": None,
                             "fields": [["a", {"k": "prim", "t": "Integer", "f": {},
                                               "occ": {"min": 0, "max": 1, "nillable": True}}],
                                        ["l", {"k": "array", "of": {"k": "prim", "t": "Unicode", "f": {}},
                                               "occ": {"min": 0, "max": 1, "nillable": True}}]]}]
        cname = draw(st.sampled_from([c["name"] for c in U["classes"]]))
        if draw(st.integers(0, 3)) == 0:
            # a fixed shape with sequences of objects at two depths (customer.orders[i].lines[j],
            # customer.last.lines[j], customer.wishes[j]) - generated universes rarely nest them
            occ1 = {"min": 0, "max": 1, "nillable": True}
            tns = U["tns"]
            U = {"tns": tns, "nss": [tns], "enums": [], "classes": [
                {"name": "C0", "ns": tns, "extends": None, "fields": [
                    ["sku", {"k": "prim", "t": "Unicode", "f": {}, "occ": dict(occ1)}],
                    ["qty", {"k": "prim", "t": "Integer", "f": {}, "occ": dict(occ1)}]]},
                {"name": "C1", "ns": tns, "extends": None, "fields": [
                    ["ref", {"k": "prim", "t": "Unicode", "f": {}, "occ": dict(occ1)}],
                    ["lines", {"k": "array", "of": {"k": "ref", "n": "C0"}, "occ": dict(occ1)}]]},
                {"name": "C2", "ns": tns, "extends": None, "fields": [
                    ["name", {"k": "prim", "t": "Unicode", "f": {}, "occ": dict(occ1)}],
                    ["last", {"k": "ref", "n": "C1", "occ": dict(occ1)}],
                    ["orders", {"k": "array", "of": {"k": "ref", "n": "C1"}, "occ": dict(occ1)}],
                    ["wishes", {"k": "ref", "n": "C0",
                                "occ": {"min": 0, "max": "unbounded", "nillable": True}}]]}]}
            cname = "C2"
        t = {"k": "ref", "n": cname}
        vg = values.ValueGen(U, special_floats=False)
        vg.nil_unspellable = True
        v = draw(vg.single(t).filter(lambda v: _no_leafless_elements(U, t, v)))
        emptied = False
        if draw(st.booleans()):
            # sequences of objects below the top level made EMPTY: the flat form has a marker
            # for them ('path=empty'), they must come back as empty sequences
            v2 = _empty_nested_objseqs(U, cname, v)
            if v2 != v and _no_leafless_elements(U, t, v2):
                v = v2
                emptied = True
        names = set()
        for c in U["classes"]:
            names.update(f for f, _ in c["fields"])
        delims = [d for d in DELIMS if not any(d in n for n in names)]
        if emptied and any(d != "." for d in delims):
            delims = [d for d in delims if d != "."]      # the marker key is spelled with the delimiter
        return {"part": "rt", "U": U, "cls": cname, "v": v, "delim": draw(st.sampled_from(delims))}
    return one()


def run_rt(case, rec):
    from spyne.protocol.http import HttpRpc
    from spyne.model.binary import ByteArray
    fails = []
    U, cname, v = case["U"], case["cls"], case["v"]
    t = {"k": "ref", "n": cname}
    try:
        B = build.Built(U)
        P = HttpRpc(hier_delim=case["delim"])
        cls = B.classes[cname]
        inst = B.to_native(t, v)
    except Exception as e:
        rec.case(case, classes=["rt:build-skip"])
        return fails

    def eater(prot, val, typ):
        if val is None:
            return None
        if issubclass(typ, ByteArray):
            return prot.to_unicode(typ, val, prot.binary_encoding)
        return prot.to_unicode(typ, val)
    try:
        flat = P.object_to_simple_dict(cls, inst, subinst_eater=eater)
    except Exception as e:
        et, where = F.exc_origin(e)
        fails.append(("C03|rt-flatten-raises|%s|%s" % (et, where),
                      "object_to_simple_dict raised %r for %r" % (e, v)))
        rec.case(case, failures=fails, classes=["rt:raises"])
        return fails
    # (1) same key structure as the reference flattening
    ref_pairs = ref_flat.Flat(U, case["delim"]).request_pairs({"args": [["o", t]]}, [v])
    ref_keys = {}
    for k, _ in ref_pairs:
        k2 = k[len("o" + case["delim"]):] if k.startswith("o" + case["delim"]) else k
        ref_keys[k2] = ref_keys.get(k2, 0) + 1
    got_keys = {}
    for k, val in flat.items():
        if val is None:
            continue
        got_keys[k] = len(val) if isinstance(val, (list, tuple)) else 1
    got_keys = {k: n for k, n in got_keys.items() if n}
    if got_keys != ref_keys:
        only_ref = sorted(set(ref_keys) - set(got_keys))[:4]
        only_got = sorted(set(got_keys) - set(ref_keys))[:4]
        fails.append(("C03|rt-flat-keys|%s" % ("missing" if only_ref else ("extra" if only_got else "counts")),
                      "flattened keys differ from the documented notation: missing %r, unexpected %r, "
                      "counts %r vs %r" % (only_ref, only_got, got_keys, ref_keys)))
    # (2) simple_dict_to_object(object_to_simple_dict(x)) == x
    doc = {}
    for k, val in flat.items():
        if val is None:
            continue
        doc[k] = [x for x in val] if isinstance(val, (list, tuple)) else [val]
    try:
        back = P.simple_dict_to_object(None, doc, cls)
        exp = ref_flat.prune(U, t, _strip_empty_text(U, t, v))
        r = values.value_eq(B, t, back, exp, path="o", ident=values.Ident(
            empty_seq_is_none=True, empty_bytes_is_none=True, empty_text_is_none=True,
            empty_wrapped_is_none=True, leafless_obj_is_none=True, empty_objseq_kept=True))
        if exp is None and back is not None:
            r = None       # an object without leaves comes back as an empty instance
        if r:
            fails.append(("C03|rt-roundtrip|%s" % _diff_class(t, r),
                          "simple_dict_to_object(object_to_simple_dict(x)) differs from x: %s\nflat: %r"
                          % (r, dict(list(flat.items())[:12]))))
    except Exception as e:
        et, where = F.exc_origin(e)
        fails.append(("C03|rt-parse-raises|%s|%s" % (et, where),
                      "simple_dict_to_object raised %r on the flat form of %r" % (e, v)))
    labs = values.classes_of(t, v, U)
    nt = {"labs": sorted(labs), "delim": case["delim"]} if (labs & {"nested_object", "wrapped_array>=2",
                                                                   "unwrapped_array>=2"}) else None
    rec.case(case, failures=fails, nontrivial=nt, classes=["part:rt"] + ["rt:" + x for x in labs])
    return fails


def shards(tier):
    n = 600 if tier == "quick" else 15000
    n2 = 400 if tier == "quick" else 8000
    return [{"kind": "hyp", "part": "req", "i": i, "n": n} for i in range(12)] + \
           [{"kind": "hyp", "part": "rt", "i": i, "n": n2} for i in range(4)]


def run_shard(shard, rec):
    if shard.get("part") == "rt":
        rec.hyp(rt_cases(rec.tier), lambda case: run_rt(case, rec), shard["n"])
    else:
        rec.hyp(cases(rec.tier), lambda case: run_case(case, rec), shard["n"])


class _NullRec(object):
    tier = "quick"

    def case(self, *a, **k):
        pass

    def count(self, *a, **k):
        pass


def replay(case):
    if case.get("part") == "rt":
        return run_rt(case, _NullRec())
    return run_case(case, _NullRec())
