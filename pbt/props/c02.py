"""C02 — Dict-document wire fidelity (JSON, YAML, MessagePack, MessagePackRpc).

case = (universe, method signature, argument values, scripted return values, protocol,
        ignore_wrappers, complex_as, validator, msgpack key kind)
Requests are built by the reference codec pbt.ref_dict (documented conventions) and
serialised by stdlib json / PyYAML / msgpack (never by spyne); responses are parsed by the
same libraries and mapped back by the reference codec.
"""
import json

import msgpack
import yaml
from hypothesis import strategies as st

from .. import build, drive, spec, values, ref_dict
from .. import findings as F
from .c01 import shape_of, _diff_class, _fault_class

PROPERTY = "C02"
RULE = ("cases = (generated type universe, wrapped method signature, conformant argument/return "
        "values, protocol in {json,yaml,msgpack,msgpack-rpc}, ignore_wrappers, complex_as in "
        "{dict,list (fully populated values)}, validator in {None,soft}, msgpack str/bin keys); "
        "documents built by an independent reference codec and serialised by stdlib json / "
        "PyYAML / msgpack; oracle = recorded arguments + reference-decoded response. "
        "Non-trivial = non-None argument and return plus one of: nested object, array of "
        "objects, complex_as=list, ignore_wrappers=False, integer beyond 2^53, decimal with "
        ">17 digits, non-ASCII text, empty container, msgpack str keys; distinct = hash of "
        "(value classes, config)")
ASSUMPTIONS = [
    "stdlib json, PyYAML safe_load/safe_dump and msgpack are trusted after a per-case "
    "round-trip calibration (loads(dumps(doc)) == doc); cases they cannot carry are counted "
    "under oracle_unavailable",
    "NaN/Infinity are outside Double's declared default open range: not generated",
    "bare methods with a single complex-object argument (or a complex return value) are exercised "
    "with ignore_wrappers=True only: with wrapper documents the key of such a request would have to "
    "be the method name and the class name of the argument at once, so no conformant request exists; "
    "simple-typed and array arguments are exercised with both settings",
    "complex_as=list is exercised for fully populated objects only (a positional form cannot "
    "skip a member) and with ignore_wrappers=True",
]
MAXTASKSPERCHILD = 4


def cases(tier):
    @st.composite
    def one(draw):
        U = draw(spec.universes(max_classes=3, xml=False))
        prot = draw(st.sampled_from(["json", "json", "yaml", "msgpack", "msgpack", "msgpackrpc"]))
        complex_as = draw(st.sampled_from(["dict", "dict", "list"]))
        wrappers = draw(st.booleans()) if complex_as == "dict" else False
        if prot == "msgpackrpc":
            wrappers = False
        styles = ("wrapped",)
        if complex_as == "dict" and prot != "msgpackrpc":
            # bare: the message is the single argument itself, keyed by the method name
            styles = ("wrapped", "wrapped", "wrapped", "bare")
        m = draw(spec.methods(U, name="m0", styles=(draw(st.sampled_from(styles)),), xml=False))
        if m["style"] == "wrapped" and U.get("same_named") and draw(st.booleans()):
            # both of two same-named classes (different namespaces) travel in one request
            occ1 = {"min": 0, "max": 1, "nillable": True}
            a_, b_ = U["same_named"]
            m["args"] = [["p", {"k": "ref", "n": a_, "occ": dict(occ1)}],
                         ["q", {"k": "ref", "n": b_, "occ": dict(occ1)}]] + \
                [x for x in m["args"] if x[0] not in ("p", "q")][:2]
        if m["style"] == "wrapped" and len(m["args"]) >= 2 and draw(st.integers(0, 3)) == 0:
            # _in_arg_names: some arguments (not only the last one) have another name on the wire
            k = draw(st.integers(1, len(m["args"])))
            m["wire"] = {an: "w_" + an for an, _ in m["args"][:k] if draw(st.booleans())} or \
                {m["args"][0][0]: "w_" + m["args"][0][0]}
        if m["style"] == "bare" and wrappers:
            # with wrapper documents only a simple-typed or array argument has a conformant
            # bare spelling (see ASSUMPTIONS); the reply of a bare method is not wrapped either
            a0 = m["args"][0][1] if m["args"] else None
            if a0 is None or (a0["k"] == "ref" and (a0.get("occ") or {}).get("max", 1) == 1) \
                    or any(r["k"] == "ref" for r in m["ret"]):
                wrappers = False
        # positional forms (complex_as=list, msgpack-rpc parameters) cannot omit a member
        vg = values.ValueGen(U, special_floats=False, nil_items=True,
                             full=(complex_as == "list" or prot == "msgpackrpc"))
        args = [draw(vg.value(t)) for _, t in m["args"]]
        rets = [draw(vg.value(t)) for t in m["ret"]]
        return {"U": U, "m": m, "args": args, "rets": rets, "prot": prot,
                "wrappers": wrappers, "complex_as": complex_as,
                "validator": draw(st.sampled_from([None, "soft"])),
                # the polymorphic switch with values of the declared classes (mixed-subclass
                # values are C16's subject): it must not change the document
                "poly": draw(st.sampled_from([False, False, True])),
                "str_keys": draw(st.booleans())}
    return one()


def _protocols(case):
    from spyne.protocol.json import JsonDocument
    from spyne.protocol.yaml import YamlDocument
    from spyne.protocol.msgpack import MessagePackDocument, MessagePackRpc
    cls = {"json": JsonDocument, "yaml": YamlDocument, "msgpack": MessagePackDocument,
           "msgpackrpc": MessagePackRpc}[case["prot"]]
    kw = dict(ignore_wrappers=not case["wrappers"],
              complex_as=list if case["complex_as"] == "list" else dict)
    if case.get("poly"):
        kw["polymorphic"] = True
    return cls(validator=case["validator"], **kw), cls(**kw)


def dumps(case, doc):
    p = case["prot"]
    if p == "json":
        return json.dumps(doc, ensure_ascii=bool(len(json.dumps(doc)) % 2)).encode("utf8")
    if p == "yaml":
        return yaml.safe_dump(doc, allow_unicode=True, default_flow_style=None).encode("utf8")
    return msgpack.packb(doc, use_bin_type=True)


def loads(case, b):
    p = case["prot"]
    if p == "json":
        return json.loads(b.decode("utf8"))
    if p == "yaml":
        return yaml.safe_load(b.decode("utf8"))
    return msgpack.unpackb(b, raw=False, strict_map_key=False)


INTERESTING = {"nested_object", "wrapped_array>=2", "unwrapped_array>=2", "inherited_fields",
               "facet", "array>10", "wrapped_array_empty"}


def run_case(case, rec):
    fails = []
    m = case["m"]
    cfg = "%s/w=%s/%s/%s%s" % (case["prot"], case["wrappers"], case["complex_as"], case["validator"],
                               "/poly" if case.get("poly") else "")
    labs = shape_of(case)
    try:
        B = build.Built(case["U"])
        R = build.Recorder()
        svc = build.make_service(B, "Svc", [m], R)
        inp, outp = _protocols(case)
        app = build.make_app([svc], case["U"]["tns"], inp, outp)
        rets = [B.to_native(t, j) for t, j in zip(m["ret"], case["rets"])]
        R.script[m["name"]] = (lambda ctx, a: None) if not rets else \
            ((lambda ctx, a: rets[0]) if len(rets) == 1 else (lambda ctx, a: tuple(rets)))
        C = ref_dict.Codec(case["U"], ref_dict.Cfg(
            "msgpack" if case["prot"].startswith("msgpack") else case["prot"],
            wrappers=case["wrappers"], complex_as=case["complex_as"],
            str_keys=case["str_keys"]))
        rpc = case["prot"] == "msgpackrpc"
        doc = C.request(m, case["args"], rpc=rpc)
        body = dumps(case, doc)
    except Exception as e:
        et, where = F.exc_origin(e)
        fails.append(("C02|build-raises|%s|%s" % (et, where), "building raised %r" % (e,)))
        rec.case(case, failures=fails, classes=["build_error"])
        return fails
    # calibrate the third-party serialiser on this very document
    try:
        cal = loads(case, body) == doc
    except Exception:
        cal = False
    if not cal:
        rec.count("oracle_unavailable:" + case["prot"])
        rec.case(case, classes=["oracle_unavailable"])
        return []
    out = drive.server_call(app, body)
    if out.escaped is not None:
        et, where = F.exc_origin(out.escaped[0])
        fails.append(("C02|escaped|%s|%s" % (et, where),
                      "%s: %r escaped from %s\nrequest doc: %r" % (cfg, out.escaped[0],
                                                                   out.escaped[1], doc)))
    elif out.fault is not None:
        fails.append(("C02|rejected-conformant|%s|%s|%s" % (case["prot"], case["validator"],
                                                            _fault_class(out.fault)),
                      "%s: conformant request answered with fault %r\nrequest doc: %r"
                      % (cfg, out.fault, doc)))
    else:
        keyk = "strkeys" if (case["prot"].startswith("msgpack") and case["str_keys"]) else "std"
        if len(R.calls) != 1:
            fails.append(("C02|invocations!=1|%s" % case["prot"],
                          "%s: function invoked %d times" % (cfg, len(R.calls))))
        else:
            _, got_args, _ = R.calls[0]
            if len(got_args) != len(m["args"]):
                fails.append(("C02|argcount|%s|%s" % (case["prot"], keyk),
                              "%s: function received %d arguments, %d were sent\nrequest doc: %r"
                              % (cfg, len(got_args), len(m["args"]), doc)))
            else:
                for (an, at), g, e in zip(m["args"], got_args, case["args"]):
                    r = values.value_eq(B, at, g, e, path=an)
                    if r:
                        fails.append(("C02|request|%s|%s|%s" % (case["prot"], keyk, _diff_class(at, r)),
                                      "%s: argument differs: %s\nrequest doc: %r" % (cfg, r, doc)))
                        break
        try:
            rdoc = loads(case, out.out_bytes)
            got = C.response(m, rdoc, rpc=rpc)
            for i, (rt, g, e) in enumerate(zip(m["ret"], got, case["rets"])):
                r = values.value_eq(B, rt, g, e, path="ret%d" % i)
                if r:
                    fails.append(("C02|response|%s|%s" % (case["prot"], _diff_class(rt, r)),
                                  "%s: response differs: %s\nresponse doc: %r" % (cfg, r, rdoc)))
                    break
        except Exception as e:
            fails.append(("C02|response-undecodable|%s|%s" % (case["prot"], type(e).__name__),
                          "%s: reference decoder cannot read the response: %r\nresponse: %r"
                          % (cfg, e, (out.out_bytes or b"")[:600])))
    nt = None
    has_arg = any(a is not None for a in case["args"])
    has_ret = any(r is not None for r in case["rets"])
    extra = set()
    if case["complex_as"] == "list":
        extra.add("complex_as_list")
    if case["wrappers"]:
        extra.add("wrappers")
    if case["prot"].startswith("msgpack") and case["str_keys"]:
        extra.add("msgpack_str_keys")
    if has_arg and has_ret and (extra or (labs & INTERESTING)
                                or any(x[4:] in INTERESTING for x in labs if x.startswith("ret:"))):
        nt = {"labs": sorted(labs | extra), "cfg": cfg, "nret": len(m["ret"]), "nargs": len(m["args"])}
    rec.case(case, failures=fails, nontrivial=nt,
             classes=["cfg:" + cfg, "nret:%d" % len(m["ret"])] + ["val:" + x for x in labs | extra])
    return fails


# ---------------------------------------------------------------- object-level helpers
def util_cases(tier):
    @st.composite
    def one(draw):
        U = draw(spec.universes(max_classes=3, xml=False))
        if not U["classes"]:
            U["classes"] = [{"name": "C0", "ns": U["tns"], "extends": None,
                             "fields": [["a", {"k": "prim", "t": "Integer", "f": {},
                                               "occ": {"min": 0, "max": 1, "nillable": True}}],
                                        ["d", {"k": "prim", "t": "Decimal", "f": {},
                                               "occ": {"min": 0, "max": 1, "nillable": True}}]]}]
        cname = draw(st.sampled_from([c["name"] for c in U["classes"]]))
        vg = values.ValueGen(U, special_floats=False, nil_items=True)
        return {"part": "util", "U": U, "cls": cname, "v": draw(vg.single({"k": "ref", "n": cname})),
                "fmt": draw(st.sampled_from(["json", "yaml"]))}
    return one()


def run_util(case, rec):
    """spyne.util.dictdoc: get_object_as_json/yaml/doc and json_loads/yaml_loads/get_doc_as_object
    against the same reference mapping (a service-free second surface)"""
    from spyne.util import dictdoc as dd
    fails = []
    U, cname, v, fmt = case["U"], case["cls"], case["v"], case["fmt"]
    t = {"k": "ref", "n": cname}
    try:
        B = build.Built(U)
        cls = B.classes[cname]
        inst = B.to_native(t, v)
    except Exception:
        rec.case(case, classes=["util:build-skip"])
        return fails
    try:
        if fmt == "json":
            C = ref_dict.Codec(U, ref_dict.Cfg("json"))
            out = dd.get_object_as_json(inst, cls, complex_as=dict)
            got = C.decode_slot(t, json.loads(out.decode("utf8")))
            text = json.dumps(C.encode_slot(t, v)).encode("utf8")
            back = dd.json_loads(text, cls)
        elif fmt == "yaml":
            C = ref_dict.Codec(U, ref_dict.Cfg("yaml", wrappers=True))
            out = dd.get_object_as_yaml(inst, cls)
            if isinstance(out, bytes):
                out = out.decode("utf8")
            got = C.decode_slot(t, yaml.safe_load(out))
            text = yaml.safe_dump(C.encode_slot(t, v), allow_unicode=True)
            if yaml.safe_load(text) != C.encode_slot(t, v):
                rec.count("oracle_unavailable:yaml")
                rec.case(case, classes=["util:oracle_unavailable"])
                return fails
            back = dd.yaml_loads(text, cls)
        else:
            C = ref_dict.Codec(U, ref_dict.Cfg("json"))
            got = C.decode_slot(t, dd.get_object_as_doc(inst, cls))
            back = dd.get_doc_as_object(C.encode_slot(t, v), cls, complex_as=dict)
    except Exception as e:
        et, where = F.exc_origin(e)
        fails.append(("C02|util-raises|%s|%s|%s" % (fmt, et, where),
                      "spyne.util.dictdoc helper (%s) raised %r for %r" % (fmt, e, v)))
        rec.case(case, failures=fails, classes=["util:raises"])
        return fails
    r = values.value_eq(B, t, got, v, path="out")
    if r:
        fails.append(("C02|util-out|%s|%s" % (fmt, _diff_class(t, r)),
                      "get_object_as_%s: the emitted document denotes a different value: %s" % (fmt, r)))
    r = values.value_eq(B, t, back, v, path="in")
    if r:
        fails.append(("C02|util-in|%s|%s" % (fmt, _diff_class(t, r)),
                      "%s loads helper: the object differs from the encoded value: %s" % (fmt, r)))
    labs = values.classes_of(t, v, U)
    nt = {"fmt": fmt, "labs": sorted(labs)} if (labs & INTERESTING or "nested_object" in labs) else None
    rec.case(case, failures=fails, nontrivial=nt, classes=["part:util", "util:" + fmt])
    return fails


def shards(tier):
    n = 600 if tier == "quick" else 12000
    n2 = 300 if tier == "quick" else 6000
    return [{"kind": "hyp", "part": "rpc", "i": i, "n": n} for i in range(13)] + \
           [{"kind": "hyp", "part": "util", "i": i, "n": n2} for i in range(3)]


def run_shard(shard, rec):
    if shard.get("part") == "util":
        rec.hyp(util_cases(rec.tier), lambda case: run_util(case, rec), shard["n"])
    else:
        rec.hyp(cases(rec.tier), lambda case: run_case(case, rec), shard["n"])


class _NullRec(object):
    tier = "quick"

    def case(self, *a, **k):
        pass

    def count(self, *a, **k):
        pass


def replay(case):
    if case.get("part") == "util":
        return run_util(case, _NullRec())
    return run_case(case, _NullRec())
