"""C06 — The published XML Schema is truthful about the wire.

Parts
  compile : the schema set spyne builds for validation compiles, and so does the schema set
            embedded in the WSDL when it is written out and compiled by libxml2 independently
  emit    : every request spyne's own client emits and every response the server emits for
            conformant values is valid against that schema (XmlDocument, Soap11, Soap12)
  verdict : for requests that use only declared fields in declared order, validator='lxml' and
            validator='soft' reach the same accept/reject verdict for every constraint both
            implement; the independent reference predicate of C05 says which side is wrong
"""
import os
import shutil
import tempfile

from hypothesis import strategies as st
from lxml import etree

from .. import build, drive, spec, values, jv
from .. import findings as F
from ..ref_xml import XS, q
from . import c01, c05

PROPERTY = "C06"
RULE = ("cases: (emit) generated universes (multi-namespace, inheritance, attributes, enums, "
        "restrictions) x wrapped signatures x conformant boundary-biased values x "
        "{XmlDocument,Soap11,Soap12}: the schema compiles (spyne's own build and an independent "
        "libxml2 compile of the WSDL-embedded schemas) and the spyne client's request and the "
        "server's response validate; (verdict) C05's constrained types x positions x logical "
        "requests near every boundary, sent to validator='lxml' and validator='soft'. "
        "Non-trivial = schema with >=2 namespaces / inheritance / restriction (emit) or request "
        "within distance 1 of a bound, ill-formed or null/occurrence edge (verdict); distinct = "
        "hash of (shape, value classes, config) resp. (facet, type, relation, position)")
ASSUMPTIONS = [
    "types that declare an inclusive and an exclusive bound on the same side (ge and gt) are not "
    "published in the verdict part: XSD cannot carry both facets in one restriction",
    "empty element content for a member with a declared default is not compared between the "
    "validators (XSD reads it as the default value)",
    "libxml2 is the schema processor",
    "the spyne client serialises wrapped calls only (its documented limitation), so emitted "
    "requests are checked for wrapped methods; responses for every style",
    "constraints compared in the verdict part: nillable, occurs, ranges, fixed-width bounds, "
    "length, pattern (common regex subset), enumeration, lexical well-formedness",
]
MAXTASKSPERCHILD = 4
WSDL = "http://schemas.xmlsoap.org/wsdl/"


def compile_wsdl_schemas(wsdl_bytes, tns):
    """write the schemas embedded in the WSDL to a temp dir (adding schemaLocation to the
    imports) and compile the target-namespace one with libxml2 -> XMLSchema"""
    doc = etree.fromstring(wsdl_bytes)
    schemas = doc.findall("%s/%s" % (q(WSDL, "types"), q(XS, "schema")))
    d = tempfile.mkdtemp(prefix="c06_")
    try:
        names = {}
        for i, s in enumerate(schemas):
            names[s.get("targetNamespace")] = "s%d.xsd" % i
        for s in schemas:
            s = etree.fromstring(etree.tostring(s))
            for imp in s.findall(q(XS, "import")):
                ns = imp.get("namespace")
                if ns in names:
                    imp.set("schemaLocation", names[ns])
            with open(os.path.join(d, names[s.get("targetNamespace")]), "wb") as fp:
                fp.write(etree.tostring(s))
        return etree.XMLSchema(etree.parse(os.path.join(d, names[tns])))
    finally:
        shutil.rmtree(d, ignore_errors=True)


def emit_cases():
    @st.composite
    def one(draw):
        U = draw(spec.universes(max_classes=3))
        style = draw(st.sampled_from(["wrapped", "wrapped", "wrapped", "out_bare"]))
        m = draw(spec.methods(U, name="m0", styles=(style,)))
        vg = values.ValueGen(U, special_floats=False, nil_items=True)
        return {"part": "emit", "U": U, "m": m,
                "args": [draw(vg.value(t)) for _, t in m["args"]],
                # the body element of a bare response cannot be absent or nil
                "rets": [draw(vg.single(t) if style != "wrapped" else vg.value(t)) for t in m["ret"]],
                "prot": draw(st.sampled_from(["xml", "soap11", "soap12"])),
                "validator": None, "variant": 0}
    return one()


def run_emit(case, rec):
    from spyne.server.wsgi import WsgiApplication
    fails = []
    U, m = case["U"], case["m"]
    labs = c01.shape_of(case)
    try:
        E = c01.Env(case)
    except Exception as e:
        et, where = F.exc_origin(e)
        fails.append(("C06|compile|spyne-build-raises|%s|%s" % (et, where),
                      "building the application / validation schema raised %r" % (e,)))
        rec.case(case, failures=fails, classes=["build_error"])
        return fails
    # independent compile of what the WSDL publishes
    schema2 = None
    try:
        w = WsgiApplication(E.app)
        w.doc.wsdl11.build_interface_document("http://localhost/")
        schema2 = compile_wsdl_schemas(w.doc.wsdl11.get_interface_document(), U["tns"])
    except etree.XMLSchemaParseError as e:
        fails.append(("C06|compile|wsdl-schemas-rejected|%s" % _schema_err(str(e)),
                      "libxml2 cannot compile the schemas embedded in the WSDL: %s" % e))
    except Exception as e:
        et, where = F.exc_origin(e)
        fails.append(("C06|compile|wsdl-build-raises|%s|%s" % (et, where), repr(e)))
    schemas = [("validation", E.schema)] + ([("wsdl", schema2)] if schema2 is not None else [])
    # request emitted by the spyne client (wrapped calls)
    native_args = [E.B.to_native(t, j) for (_, t), j in zip(m["args"], case["args"])]
    if m["style"] == "wrapped":
        req, out, res, err = drive.loopback_call(E.app, m["name"], native_args)
        if req is None:
            et, where = F.exc_origin(err) if err is not None else ("?", "?")
            fails.append(("C06|emit|client-cannot-serialise|%s|%s" % (et, where),
                          "the spyne client raised %r serialising conformant arguments" % (err,)))
        else:
            body = _body(case, req)
            for sname, sch in schemas:
                if body is not None and not sch.validate(body):
                    fails.append(("C06|emit|request-invalid|%s" % c01._facet_of(str(sch.error_log.last_error)),
                                  "request emitted by the spyne client is invalid under the %s schema: "
                                  "%s\n%s" % (sname, sch.error_log.last_error, req.decode("utf8", "replace")[:700])))
                    break
            resp = out.out_bytes if out is not None and out.escaped is None else None
            if out is not None and out.fault is not None:
                resp = None
    else:
        req_el = E.wrap(E.request_element())
        out = drive.server_call(E.app, etree.tostring(req_el))
        resp = out.out_bytes if out.escaped is None and out.fault is None else None
    if resp is not None:
        body = _body(case, resp)
        if body is not None:
            for sname, sch in schemas:
                if not sch.validate(body):
                    fails.append(("C06|emit|response-invalid|%s|%s" % (m["style"] + ("" if m["ret"] else ":no-return"),
                                                                      c01._facet_of(str(sch.error_log.last_error))),
                                  "response emitted by the server is invalid under the %s schema: %s\n%s"
                                  % (sname, sch.error_log.last_error, resp.decode("utf8", "replace")[:700])))
                    break
    nt = None
    if len(U["nss"]) >= 2 or any(c["extends"] for c in U["classes"]) or "facet" in labs \
            or any(x.endswith("facet") for x in labs):
        nt = {"labs": sorted(labs), "prot": case["prot"], "style": m["style"], "nss": len(U["nss"])}
    rec.case(case, failures=fails, nontrivial=nt,
             classes=["emit:" + case["prot"], "style:" + m["style"], "nss:%d" % len(U["nss"])]
             + ["val:" + x for x in labs])
    return fails


def _schema_err(s):
    for k in ("not resolved", "already defined", "does not resolve", "is not valid", "Duplicate",
              "circular", "facet"):
        if k in s:
            return k.replace(" ", "_")
    return "other"


def _body(case, data):
    try:
        doc = etree.fromstring(data)
    except Exception:
        return None
    if case["prot"] == "xml":
        return doc
    ns = c01.SOAP11 if case["prot"] == "soap11" else c01.SOAP12
    b = doc.find(q(ns, "Body"))
    kids = [c for c in b if isinstance(c.tag, str)] if b is not None else []
    return kids[0] if kids else None


# ---------------------------------------------------------------- verdict differential
def run_verdict(case, rec):
    fails = []
    ts, pos = case["ts"], case["pos"]
    k = c05.kind_of(ts)
    case = dict(case)
    apps = {}
    try:
        for v in ("lxml", "soft"):
            calls = []
            apps[v] = (c05.build_app(case, "xml", calls, validator=v), calls)
    except Exception as e:
        et, where = F.exc_origin(e)
        fails.append(("C06|compile|spyne-build-raises|%s|%s" % (et, where),
                      "building %r at %s raised %r" % (ts, pos, e)))
        rec.case(case, failures=fails, classes=["build_error"])
        return fails
    if pos == "array_member":
        from ..ref_xml import SchemaModel
        xs = apps["soft"][0].interface.docs.xml_schema
        xs.build_schema_nodes()
        model = SchemaModel(xs.schema_dict.values())
        tq = model.elements[(case["tns"], "m0")]
        ltq = [e for e in model.all_elements(tq) if e["name"] == "l"][0]["type"]
        case["_member"] = model.all_elements(ltq)[0]["name"]
    for lr in case["lrs"]:
        r = c05.render(case, "xml", lr)
        if r is None:
            continue
        verdicts = {}
        for v, (app, calls) in apps.items():
            del calls[:]
            out = drive.server_call(app, r[1])
            if out.escaped is not None:
                verdicts[v] = "escaped"
            else:
                verdicts[v] = "accept" if (out.fault is None and calls) else "reject"
        ref = "accept" if c05.verdict(ts, lr) else "reject"
        rel = c05.relation(ts, lr)
        if "special" in rel or (lr["kind"] == "count" and any(
                c05.relation(ts, {"kind": "value", "v": v}).find("special") >= 0 for v in lr["vs"])):
            continue      # INF/NaN vs the undeclared default range: not a constraint both implement
        if "default" in ts.get("f", {}) and (
                (lr["kind"] == "literal" and lr["text"] == "") or
                (lr["kind"] == "value" and c05.jv.dec(lr["v"]) in ("", b""))):
            # XSD: an element with a declared default and empty content denotes the default
            # value; the schema processor rightly accepts it, what soft validation makes of
            # the empty text is a question of default handling, not of C06
            rec.count("verdict:empty-with-default-skipped")
            continue
        if verdicts["lxml"] != verdicts["soft"]:
            wrong = "soft" if verdicts["soft"] != ref else "lxml"
            sig_rel = "literal:empty" if rel == "literal:empty" else "%s|%s" % (k, rel)
            fails.append(("C06|verdict|%s|%s|%s-wrong" % (sig_rel, pos if rel != "literal:empty" else "*", wrong),
                          "type %r at %s, request %r: lxml says %s, soft says %s, reference says %s; "
                          "sent %r" % (ts, pos, lr, verdicts["lxml"], verdicts["soft"], ref, r[1][:300])))
        nt = {"k": k, "rel": rel, "pos": pos} if rel != "inside" else None
        rec.case({"part": "verdict", "ts": ts, "pos": pos, "lr": lr, "tns": case["tns"]},
                 nontrivial=nt, classes=["verdict:" + pos, "kind:" + k, "agree:%s" % (verdicts["lxml"] == verdicts["soft"])])
    for sig, msg in fails:
        rec.fail(sig, msg, {a: b for a, b in case.items() if not a.startswith("_")})
    return fails


def run_case(case, rec):
    if case.get("part") == "emit":
        return run_emit(case, rec)
    return run_verdict(case, rec)


def shards(tier):
    n1 = 600 if tier == "quick" else 6000
    n2 = 300 if tier == "quick" else 2500
    return [{"kind": "hyp", "part": "emit", "i": i, "n": n1} for i in range(8)] + \
           [{"kind": "hyp", "part": "verdict", "i": i, "n": n2} for i in range(8)]


def run_shard(shard, rec):
    if shard["part"] == "emit":
        rec.hyp(emit_cases(), lambda case: run_case(case, rec), shard["n"])
    else:
        # an inclusive and an exclusive bound on the same side cannot be published (XSD forbids
        # minInclusive next to minExclusive in one restriction): C05 checks such types, C06 not
        def one_bound_per_side(c):
            f = c["ts"].get("f", {})
            return not (("ge" in f and "gt" in f) or ("le" in f and "lt" in f))
        strat = c05.cases(rec.tier).filter(one_bound_per_side).map(lambda c: dict(c, part="verdict"))
        rec.hyp(strat, lambda case: run_case(case, rec), shard["n"])


class _NullRec(object):
    tier = "quick"

    def case(self, *a, **k):
        pass

    def count(self, *a, **k):
        pass

    def fail(self, *a, **k):
        pass


def replay(case):
    return run_case(case, _NullRec())
