"""C05 — Soft validation enforces exactly the declared constraints in every protocol.

case = (constrained type from the facet lattice, position in {arg, field, array_member, attr},
        a batch of logical requests)                     -- rendered into six protocol families
logical request = value | ill-formed literal | explicit null | absent | n occurrences
Oracle: an independent ten-line predicate per facet (`verdict`): accept <=> the user function
runs (with an equal value); reject <=> it does not run and the fault code is in the Client
family.  The same logical request must get the same verdict in every family that can spell it.
"""
import datetime as dtm
import decimal
import json
import re
import urllib.parse

import msgpack
import yaml
from hypothesis import strategies as st
from lxml import etree

from .. import build, drive, eq, jv, lex, spec
from ..ref_xml import leaf_text
from ..spec import PRIM_KIND, int_bounds
from .. import findings as F

D = decimal.Decimal
PROPERTY = "C05"
RULE = ("cases = (one constrained type drawn from the facet lattice {nillable, min/max occurs, "
        "ge/gt/le/lt, fixed width, min/max length, pattern, enumeration}, position in {top-level "
        "argument, nested field, array member, XML attribute}, logical request in {value on / "
        "just inside / just outside every bound, ill-formed literal, explicit null, absent, "
        "n occurrences}) rendered into XmlDocument, Soap11, JSON, YAML, MessagePack and HttpRpc "
        "with validator='soft'; oracle = independent constraint predicate + user-function "
        "recorder + fault-code family. Non-trivial = the request is within distance 1 of a "
        "boundary, ill-formed, or a null/occurrence edge; distinct = (facet, type, relation, "
        "position, family)")
ASSUMPTIONS = [
    "facets not named by the property (total/fraction digits, max_str_len as a user-visible "
    "limit, patterns on non-strings) are not asserted",
    "HttpRpc cannot spell null: null requests are not sent there; attributes exist in XML only",
    "patterns are limited to constructs with the same meaning in Python full-match and XSD",
    "surrounding whitespace in literals is not generated (schema processors collapse it)",
]
EXHAUSTIVE = {
    "quick": ["fixed-width integer bounds +-3 for all 8 fixed-width types x 6 families"],
    "thorough": ["all 8-bit and 16-bit values +-3 beyond each end for Integer8/16 and "
                 "UnsignedInteger8/16 x 6 families",
                 "occurrence counts 0..max+2 for every generated max_occurs"],
}
MAXTASKSPERCHILD = 6
FAMILIES = ["xml", "soap11", "json", "yaml", "msgpack", "http"]
POSITIONS = ["arg", "field", "array_member", "attr"]
SOAP11 = "http://schemas.xmlsoap.org/soap/envelope/"
XSI = "http://www.w3.org/2001/XMLSchema-instance"

PAT = {   # pattern -> (members, non-members incl. prefix/suffix traps)
    "[a-z]{1,5}": (["a", "abcde", "zz"], ["", "abcdef", "A", "ab1", "abc ", "a\nb"]),
    "[0-9]+": (["0", "123"], ["", "12a", "a12", "1 2", "1\n"]),
    "A|BC": (["A", "BC"], ["", "AB", "ABC", "Ax", "xA", "B", "C"]),
    "[A-Z][a-z]*": (["A", "Abc"], ["", "a", "AB", "Ab1", "1Ab"]),
    "x?y{2}": (["yy", "xyy"], ["", "y", "yyy", "xxyy", "xyyz"]),
}
ILL = {   # ill-formed literals per kind (text protocols); python-only spellings included
    "int": ["abc", "", "1.0", "1e3", "1_0", "٣", "0x10", "1 2", "--1", "+", "nan"],
    # (the exponent form '1e3' is not listed: spyne itself emits it, known finding of C08)
    "dec": ["abc", "", "1_0", "NaN", "Infinity", "1,5", "."],
    "double": ["abc", "", "1_0", "infinity", "1e", "0x1p3", "nane"],
    # (upper-case TRUE/FALSE are tolerated on purpose: the code lower-cases explicitly)
    "bool": ["yes", "2", "", "tru", "01", "t"],
    "dt": ["abc", "", "2020-13-01T00:00:00", "2020-02-30T00:00:00", "2020-01-01T25:00:00",
           "2020-01-01", "2020-01-01T00:00", "2020-1-1T00:00:00", "2020-01-01T00:00:00+25:00"],
    "date": ["abc", "", "2020-13-01", "2020-02-30", "20200101", "2020-1-1", "01-01-2020"],
    "time": ["abc", "", "25:00:00", "12:60:00", "12:00", "1:2:3"],
    "td": ["abc", "", "P", "PT", "1D", "P1S", "PT1D", "P-1D"],
    "uuid": ["abc", "", "12345678-1234-1234-1234-12345678901", "g2345678-1234-1234-1234-123456789012"],
    "bytes": [],
}


# ---------------------------------------------------------------- type specs
def _bounded(lo, hi, mk):
    """strategy of facet dicts using ge|gt and le|lt over [lo, hi]"""
    def build(t):
        a, b, lk, hk, use = t
        if a > b:
            a, b = b, a
        if a == b:
            lk, hk = "ge", "le"          # an empty value space is not a meaningful type
        # a bound outside the width of the type is refused by spyne at declaration time
        if lk == "gt" and a >= hi:
            lk = "ge"
        if hk == "lt" and b <= lo:
            hk = "le"
        f = {}
        if use & 1:
            f[lk] = mk(a)
        if use & 2:
            f[hk] = mk(b)
        # an inclusive AND an exclusive bound on the same side (a type customized twice):
        # both hold; the second one is looser or tighter by 2, kept inside [lo, hi] and
        # away from the other side so that the value space stays non-empty
        if use & 4 and use & 1 and b - a >= 6:
            f["gt" if lk == "ge" else "ge"] = mk(min(max(a + (2 if use & 16 else -2), lo), hi))
        if use & 8 and use & 2 and b - a >= 6:
            f["lt" if hk == "le" else "le"] = mk(min(max(b + (-2 if use & 16 else 2), lo), hi))
        return f
    return st.tuples(st.integers(lo, hi), st.integers(lo, hi), st.sampled_from(["ge", "gt"]),
                     st.sampled_from(["le", "lt"]),
                     st.sampled_from([0, 1, 2, 3, 3, 3, 7, 11, 15, 23, 27, 31])).map(build)


@st.composite
def type_specs(draw):
    t = draw(st.sampled_from(sorted(PRIM_KIND) + ["Enum", "Unicode", "Unicode", "Integer"]))
    f = {}
    if t == "Enum":
        ts = {"k": "enum", "n": "E0"}
    else:
        k = PRIM_KIND[t]
        if k == "int":
            lo, hi = int_bounds(t)
            lo = -1000 if lo is None else max(lo, -10 ** 6)
            hi = 1000 if hi is None else min(hi, 10 ** 6)
            f = draw(_bounded(lo, hi, lambda x: jv.enc(x)))
        elif k == "dec":
            f = draw(_bounded(-5000, 5000, lambda x: jv.enc(D(x) / 10)))
        elif k == "double":
            f = draw(_bounded(-5000, 5000, lambda x: jv.enc(x / 4.0)))
        elif t == "Unicode":
            c = draw(st.integers(0, 4))
            if c == 0:
                lo = draw(st.integers(0, 4))
                f = {"min_len": lo, "max_len": lo + draw(st.integers(0, 5))}
            elif c == 1:
                f = {"max_len": draw(st.integers(0, 6))}
            elif c == 2:
                f = {"pattern": draw(st.sampled_from(sorted(PAT)))}
            elif c == 3:
                f = {"values": draw(st.lists(st.sampled_from(["a", "b", "xyz", "A b", "é"]),
                                             min_size=1, max_size=3, unique=True))}
        elif k == "dt":
            base = dtm.datetime(2020, 1, 1, tzinfo=dtm.timezone.utc)
            f = draw(_bounded(-500, 500, lambda x: jv.enc(base + dtm.timedelta(hours=x))))
        elif k == "date":
            f = draw(_bounded(-500, 500, lambda x: jv.enc(dtm.date(2020, 6, 1) + dtm.timedelta(days=x))))
        elif k == "time":
            f = draw(_bounded(0, 86399, lambda x: jv.enc(dtm.time(x // 3600, x // 60 % 60, x % 60))))
        ts = {"k": "prim", "t": t, "f": f}
    mx = draw(st.sampled_from([1, 1, 1, 2, 3, "unbounded"]))
    mn = draw(st.sampled_from([0, 0, 1, 2] if mx != 1 else [0, 0, 1]))
    if mx != "unbounded" and mn > mx:
        mn = mx
    ts["occ"] = {"min": mn, "max": mx, "nillable": draw(st.booleans())}
    if mn == 0 and mx == 1 and ts["k"] == "prim" and draw(st.integers(0, 3)) == 0:
        # a declared default (a value that satisfies the facets): says nothing about which
        # requests are valid, but is published in the schema next to nillable / minOccurs
        d = _default_for(ts)
        if d is not None:
            ts["f"] = dict(ts["f"], default=jv.enc(d))
    return ts


def _default_for(ts):
    k = PRIM_KIND[ts["t"]]
    f = {a: jv.dec(b) for a, b in ts.get("f", {}).items()}
    cands = []
    if k in ("int", "dec", "double"):
        conv = {"int": int, "dec": D, "double": float}[k]
        for key in ("ge", "gt", "le", "lt"):
            if key in f:
                cands += [f[key], f[key] + conv(1), f[key] - conv(1)]
        cands += [conv(0), conv(1), conv(5)]
    elif k == "text":
        cands = list(f.get("values", [])) + [m for pat in ([f["pattern"]] if "pattern" in f else [])
                                             for m in PAT[pat][0]]
        cands += ["a" * n for n in (f.get("min_len", 1), 1, 3)]
    elif k == "bool":
        cands = [True]
    for c in cands:
        try:
            if valid_value(dict(ts, f={a: b for a, b in ts["f"].items() if a != "default"}), c):
                return c
        except Exception:
            continue
    return None


def kind_of(ts):
    return "enum" if ts["k"] == "enum" else PRIM_KIND[ts["t"]]


ENUM_VALUES = ["red", "green", "blue"]


# ---------------------------------------------------------------- reference predicate
def valid_value(ts, v):
    """does native value v satisfy every declared facet of ts?  (independent of spyne)"""
    k = kind_of(ts)
    if k == "enum":
        return v in ENUM_VALUES
    f = {a: jv.dec(b) for a, b in ts.get("f", {}).items()}
    if k == "int":
        lo, hi = int_bounds(ts["t"])
        if lo is not None and v < lo:
            return False
        if hi is not None and v > hi:
            return False
    if k == "double" and (v != v or v in (float("inf"), float("-inf"))):
        return False          # outside the declared default open range (gt=-inf, lt=inf)
    if k == "dt" and v.tzinfo is None:
        v = v.replace(tzinfo=dtm.timezone.utc)
    if "ge" in f and not v >= f["ge"]:
        return False
    if "gt" in f and not v > f["gt"]:
        return False
    if "le" in f and not v <= f["le"]:
        return False
    if "lt" in f and not v < f["lt"]:
        return False
    if k == "text":
        if "min_len" in f and len(v) < f["min_len"]:
            return False
        if "max_len" in f and len(v) > f["max_len"]:
            return False
        if "pattern" in f and re.fullmatch(f["pattern"], v) is None:
            return False
        if "values" in f and v not in f["values"]:
            return False
    return True


def verdict(ts, lr):
    occ = ts["occ"]
    mn, mx, nil = occ["min"], occ["max"], occ["nillable"]
    top = float("inf") if mx == "unbounded" else mx
    kind = lr["kind"]
    if kind == "absent":
        return mn == 0
    if kind == "null":
        return nil and mn <= 1 <= top
    if kind == "literal":
        return False
    if kind == "value":
        return mn <= 1 <= top and valid_value(ts, jv.dec(lr["v"]))
    if kind == "count":
        n = len(lr["vs"])
        if n == 0:
            return mn == 0
        return mn <= n <= top and all(valid_value(ts, jv.dec(x)) for x in lr["vs"])
    raise ValueError(kind)


# ---------------------------------------------------------------- logical requests
def _near(ts):
    """native values on / just inside / just outside every bound of ts"""
    k = kind_of(ts)
    f = {a: jv.dec(b) for a, b in ts.get("f", {}).items()}
    out = []
    if k == "enum":
        return ENUM_VALUES[:2]
    step = {"int": 1, "dec": D("0.001"), "double": 0.25, "dt": dtm.timedelta(seconds=1),
            "date": dtm.timedelta(days=1), "time": None}.get(k)
    for b in ("ge", "gt", "le", "lt"):
        if b in f:
            v = f[b]
            if k == "time":
                secs = v.hour * 3600 + v.minute * 60 + v.second
                for s in (secs - 1, secs, secs + 1):
                    if 0 <= s <= 86399:
                        out.append(dtm.time(s // 3600, s // 60 % 60, s % 60))
            else:
                out += [v - step, v, v + step]
                if k == "dt":
                    out += [v - dtm.timedelta(microseconds=1), v + dtm.timedelta(microseconds=1)]
    if k == "int":
        lo, hi = int_bounds(ts["t"])
        for e in (lo, hi):
            if e is not None:
                out += [e - 1, e, e + 1]
        out += [0, 1, -1]
    elif k == "dec":
        out += [D("0"), D("-0.5"), D("12345678901234567890.5")]
    elif k == "double":
        out += [0.0, -2.5, 1e300, float("inf"), float("nan")]
    elif k == "text":
        if "pattern" in f:
            out += PAT[f["pattern"]][0] + PAT[f["pattern"]][1]
        elif "values" in f:
            out += list(f["values"]) + ["zz", f["values"][0] + "x", f["values"][0].upper() + "_"]
        else:
            lens = set()
            for b in ("min_len", "max_len"):
                if b in f:
                    lens.update(x for x in (f[b] - 1, f[b], f[b] + 1) if x >= 0)
            lens.update([1, 3])
            out += ["x" * n for n in sorted(lens)] + ["é" * n for n in sorted(lens) if n]
            if ts["t"] == "AnyUri":
                out = ["http://example.com/a", "urn:x"]
    elif k == "bool":
        out += [True, False]
    elif k == "dt":
        out += [dtm.datetime(2020, 1, 1, 12, 0, tzinfo=dtm.timezone.utc)]
    elif k == "date":
        out += [dtm.date(2020, 6, 1)]
    elif k == "time":
        out += [dtm.time(12, 0, 0)]
    elif k == "td":
        out += [dtm.timedelta(seconds=5), -dtm.timedelta(days=1, microseconds=7)]
    elif k == "uuid":
        import uuid
        out += [uuid.UUID("12345678-1234-5678-1234-567812345678")]
    elif k == "bytes":
        out += [b"ab", b"\x00\xff"]
    res = []
    for v in out:
        try:
            res.append(jv.enc(v))
        except Exception:
            pass
    return res


def logical_requests(ts, draw):
    k = kind_of(ts)
    near = _near(ts)
    lrs = [{"kind": "value", "v": v} for v in near]
    # xsi:nil="false"/"0" on an element that carries a value is not a null (XML families)
    # (the attribute may only appear at all on nillable elements: cvc-elt.3.1)
    if ts["occ"]["nillable"]:
        lrs += [{"kind": "value", "v": v, "nilattr": n} for v, n in zip(near[:2], ("false", "0"))]
    lrs += [{"kind": "null"}, {"kind": "null", "nilattr": "1"}, {"kind": "absent"}]
    for lit in ILL.get(k, []):
        lrs.append({"kind": "literal", "text": lit})
    mx = ts["occ"]["max"]
    if mx != 1:
        top = 3 if mx == "unbounded" else mx
        good = [v for v in near if valid_value(ts, jv.dec(v))]
        bad = [v for v in near if not valid_value(ts, jv.dec(v))]
        if good:
            for n in range(0, top + 3):
                lrs.append({"kind": "count", "vs": [good[i % len(good)] for i in range(n)]})
            if bad:
                lrs.append({"kind": "count", "vs": [good[0], bad[0]][:max(2, ts["occ"]["min"])]})
                # the offending occurrence first / in the middle (every occurrence is checked,
                # not just the last one)
                lrs.append({"kind": "count", "vs": [bad[0], good[0]]})
                if top >= 3:
                    lrs.append({"kind": "count", "vs": [good[0], bad[-1], good[-1]]})
    return lrs


def cases(tier):
    @st.composite
    def one(draw):
        ts = draw(type_specs())
        pos = draw(st.sampled_from(POSITIONS))
        if pos == "attr" and (kind_of(ts) in ("bytes", "enum") or ts["occ"]["max"] != 1):
            pos = "field"
        if pos == "array_member":
            ts["occ"]["max"] = 1
            ts["occ"]["min"] = min(ts["occ"]["min"], 1)
        lrs = logical_requests(ts, draw)
        idx = draw(st.lists(st.integers(0, len(lrs) - 1), min_size=1, max_size=14, unique=True))
        return {"ts": ts, "pos": pos, "lrs": [lrs[i] for i in sorted(idx)],
                # the constrained member is declared by the PARENT class of the argument's class
                "inh": pos in ("field", "attr") and draw(st.booleans()),
                # XML families: the documented non-default option replace_null_with_default=False
                "rnd": draw(st.sampled_from([True, True, False])),
                "tns": "urn:c05x%08x" % draw(st.integers(0, 2 ** 32 - 1))}
    return one()


# ---------------------------------------------------------------- applications
def build_app(case, fam, calls, validator="soft"):
    from spyne import rpc, Service, Application
    from spyne.model.complex import ComplexModel, ComplexModelMeta, Array, XmlAttribute
    from spyne.model.primitive import Integer
    from spyne.model.enum import Enum
    from spyne.protocol.xml import XmlDocument
    from spyne.protocol.soap import Soap11
    from spyne.protocol.json import JsonDocument
    from spyne.protocol.yaml import YamlDocument
    from spyne.protocol.msgpack import MessagePackDocument
    from spyne.protocol.http import HttpRpc
    ts, pos, tns = case["ts"], case["pos"], case["tns"]
    B = build.Built({"tns": tns, "nss": [tns], "classes": [], "enums": [
        {"name": "E0", "ns": tns, "values": ENUM_VALUES}]})
    occ = ts["occ"]
    if pos == "attr":
        base = B.base_type(ts)
        T = XmlAttribute(base.customize(nillable=occ["nillable"]),
                         use="required" if occ["min"] >= 1 else None)
    elif pos == "array_member":
        T = B.base_type(ts).customize(nillable=occ["nillable"])
    else:
        T = B.type_of(ts)
    if pos == "arg":
        params, names = [T], ["a"]
    elif pos in ("field", "attr"):
        if case.get("inh"):
            P0 = ComplexModelMeta("P0", (ComplexModel,), {"__namespace__": tns,
                                                           "_type_info": [("f", T)]})
            C0 = ComplexModelMeta("C0", (P0,), {"__namespace__": tns,
                                                "_type_info": [("z", Integer)]})
        else:
            C0 = ComplexModelMeta("C0", (ComplexModel,), {"__namespace__": tns,
                                                           "_type_info": [("f", T), ("z", Integer)]})
        params, names = [C0], ["o"]
    else:
        params, names = [Array(T)], ["l"]

    def m0(ctx, x):
        calls.append(x)
        return 1

    Svc = type("Svc", (Service,), {"m0": rpc(*params, _returns=Integer, _args=names)(m0)})
    P = {"xml": XmlDocument, "soap11": Soap11, "json": JsonDocument, "yaml": YamlDocument,
         "msgpack": MessagePackDocument, "http": HttpRpc}[fam]
    outp = JsonDocument() if fam == "http" else P()
    kw = {}
    if fam in ("xml", "soap11") and case.get("rnd") is False:
        kw["replace_null_with_default"] = False
    return Application([Svc], tns=tns, in_protocol=P(validator=validator, **kw), out_protocol=outp,
                       name="C05App")


def _texts(ts, lr):
    """list of literal texts (one per occurrence), or special markers"""
    k = kind_of(ts)
    if lr["kind"] == "value":
        return [_text(ts, lr["v"])]
    if lr["kind"] == "literal":
        return [lr["text"]]
    if lr["kind"] == "count":
        return [_text(ts, v) for v in lr["vs"]]
    return None


def _text(ts, v):
    k = kind_of(ts)
    if k == "enum":
        return v
    n = jv.dec(v)
    builtin = None
    if k == "bytes":
        builtin = "hexBinary" if ts.get("f", {}).get("encoding") == "hex" else "base64Binary"
    return leaf_text(k, n, builtin)


def _doc_value(ts, v, fam):
    """value as a dict-document leaf"""
    k = kind_of(ts)
    if k == "enum":
        return v
    n = jv.dec(v)
    if k in ("int", "bool"):
        if fam == "msgpack" and k == "int" and not (-2 ** 63 <= n < 2 ** 64):
            return str(n)
        return n
    if k == "double":
        return float(n)
    if k == "bytes" and fam == "msgpack":
        return n
    return _text(ts, v)


def render(case, fam, lr):
    """-> (kind, payload) for drive, or None if the family cannot spell the request"""
    ts, pos, tns = case["ts"], case["pos"], case["tns"]
    kind = lr["kind"]
    if pos == "attr" and fam not in ("xml", "soap11"):
        return None
    if lr.get("nilattr") and (fam not in ("xml", "soap11") or pos == "attr"):
        return None
    if fam in ("xml", "soap11"):
        def el(tag, text=None, nil=False):
            e = etree.Element("{%s}%s" % (tns, tag))
            if nil:
                e.set("{%s}nil" % XSI, lr.get("nilattr", "true"))
            elif text is not None:
                e.text = text
                if lr.get("nilattr") and tag in ("a", "f", case.get("_member")):
                    e.set("{%s}nil" % XSI, lr["nilattr"])
            return e
        root = etree.Element("{%s}m0" % tns, nsmap={None: tns, "xsi": XSI})
        texts = _texts(ts, lr)
        try:
            if pos == "arg":
                if kind == "null":
                    root.append(el("a", nil=True))
                elif kind != "absent":
                    for t in texts:
                        root.append(el("a", t))
            elif pos == "field":
                o = el("o")
                root.append(o)
                if kind == "null":
                    o.append(el("f", nil=True))
                elif kind != "absent":
                    for t in texts:
                        o.append(el("f", t))
                o.append(el("z", "1"))
            elif pos == "attr":
                o = el("o")
                root.append(o)
                if kind == "null":
                    return None
                if kind == "count":
                    return None
                if kind != "absent":
                    o.set("f", texts[0])
                o.append(el("z", "1"))
            else:
                if kind in ("absent", "count"):
                    return None
                l = el("l")
                root.append(l)
                name = case["_member"]
                if kind == "null":
                    l.append(el(name, nil=True))
                else:
                    l.append(el(name, texts[0]))
        except ValueError:
            return None       # text that XML cannot carry
        if fam == "soap11":
            envl = etree.Element("{%s}Envelope" % SOAP11, nsmap={"e": SOAP11})
            etree.SubElement(envl, "{%s}Body" % SOAP11).append(root)
            root = envl
        return ("body", etree.tostring(root))
    k = kind_of(ts)
    if fam == "http":
        if kind == "null":
            return None
        texts = _texts(ts, lr) or []
        key = {"arg": "a", "field": "o.f", "array_member": "l"}[pos]
        pairs = [(key, t) for t in texts]
        if pos == "field":
            pairs.append(("o.z", "1"))
        if pos == "array_member" and kind in ("absent", "count"):
            return None
        if any(t == "" for _, t in pairs):
            return None       # an empty value is indistinguishable from absence in a query
        q = urllib.parse.quote
        return ("query", "&".join("%s=%s" % (q(a, safe="[]."), q(b, safe="")) for a, b in pairs))
    # dict documents
    multi = ts["occ"]["max"] != 1
    if kind == "literal":
        if lr["text"] == "" and k not in ("text",):
            return None
        val = lr["text"]
    elif kind == "value":
        val = _doc_value(ts, lr["v"], fam)
        if multi:
            val = [val]
    elif kind == "count":
        val = [_doc_value(ts, v, fam) for v in lr["vs"]]
    else:
        val = None
    if kind == "literal" and multi:
        val = [val]
    if pos == "arg":
        body = {} if kind == "absent" else {"a": val}
    elif pos == "field":
        o = {"z": 1}
        if kind != "absent":
            o["f"] = val
        body = {"o": o}
    else:
        if kind in ("absent", "count"):
            return None
        body = {"l": [val]}
    doc = {"m0": body}
    try:
        if fam == "json":
            return ("body", json.dumps(doc).encode("utf8"))
        if fam == "yaml":
            b = yaml.safe_dump(doc, allow_unicode=True).encode("utf8")
            if yaml.safe_load(b.decode("utf8")) != doc:
                return None
            return ("body", b)
        return ("body", msgpack.packb(doc, use_bin_type=True))
    except Exception:
        return None


def relation(ts, lr):
    """boundary relation of a logical request (for signatures and distinctness)"""
    kind = lr["kind"]
    if kind in ("null", "absent"):
        occ = ts["occ"]
        return "%s(min=%s,nillable=%s)" % (kind, min(occ["min"], 1), occ["nillable"])
    if kind == "literal":
        t = lr["text"]
        if t == "":
            return "literal:empty"
        if t in ("1_0", "٣", "0x10", "TRUE", "nan", "NaN", "Infinity", "infinity", "0x1p3"):
            return "literal:python-only"
        return "literal:ill-formed"
    if kind == "count":
        n = len(lr["vs"])
        occ = ts["occ"]
        top = 10 ** 9 if occ["max"] == "unbounded" else occ["max"]
        if n < occ["min"]:
            return "count<min"
        if n > top:
            return "count>max"
        if any(not valid_value(ts, jv.dec(v)) for v in lr["vs"]):
            return "count:bad-member"
        return "count:in-range"
    v = jv.dec(lr["v"])
    k = kind_of(ts)
    f = {a: jv.dec(b) for a, b in ts.get("f", {}).items()}
    rel = []
    if lr.get("nilattr"):
        rel.append("nil=false")
    vv = v.replace(tzinfo=dtm.timezone.utc) if k == "dt" and v.tzinfo is None else v
    for b in ("ge", "gt", "le", "lt"):
        if b in f:
            if vv == f[b]:
                rel.append(b + ":on")
            elif (vv < f[b]) == (b in ("ge", "gt")):
                rel.append(b + ":outside")
    if k == "int":
        lo, hi = int_bounds(ts["t"])
        if (lo is not None and v == lo) or (hi is not None and v == hi):
            rel.append("width:on")
        if (lo is not None and v < lo) or (hi is not None and v > hi):
            rel.append("width:outside")
    if k == "text":
        for b in ("min_len", "max_len"):
            if b in f:
                d = len(v) - f[b]
                if d == 0:
                    rel.append(b + ":on")
                elif (d < 0) == (b == "min_len"):
                    rel.append(b + ":outside")
        if "pattern" in f:
            rel.append("pattern:" + ("member" if re.fullmatch(f["pattern"], v) else "non-member"))
        if "values" in f:
            rel.append("enum:" + ("member" if v in f["values"] else "non-member"))
    if k == "enum":
        rel.append("enum:member")
    if k == "double" and (v != v or v in (float("inf"), float("-inf"))):
        rel.append("special")
    return ",".join(rel) or "inside"


def run_case(case, rec):
    from spyne.server.wsgi import WsgiApplication
    fails = []
    ts, pos = case["ts"], case["pos"]
    k = kind_of(ts)
    tname = "Enum" if k == "enum" else ts["t"]
    case = dict(case)
    for fam in FAMILIES:
        calls = []
        try:
            app = build_app(case, fam, calls)
        except Exception as e:
            et, where = F.exc_origin(e)
            fails.append(("C05|build-raises|%s|%s" % (et, where),
                          "building %s/%s for %r raised %r" % (fam, pos, ts, e)))
            continue
        if pos == "array_member" and fam in ("xml", "soap11"):
            # element name of the array member, read from the published schema
            from ..ref_xml import SchemaModel
            xs = app.interface.docs.xml_schema
            xs.build_schema_nodes()
            model = SchemaModel(xs.schema_dict.values())
            tq = model.elements[(case["tns"], "m0")]
            ltq = [e for e in model.all_elements(tq) if e["name"] == "l"][0]["type"]
            case["_member"] = model.all_elements(ltq)[0]["name"]
        wsgi = WsgiApplication(app) if fam == "http" else None
        for lr in case["lrs"]:
            r = render(case, fam, lr)
            if r is None:
                rec.count("unspellable:" + fam)
                continue
            del calls[:]
            exp = verdict(ts, lr)
            rel = relation(ts, lr)
            if r[0] == "query":
                res = drive.wsgi_call(wsgi, drive.environ("GET", "/m0", r[1], content_type=None,
                                                          content_length=None))
                escaped = res.escaped
                ok = (res.status or "").startswith("200")
                code = None
                if not ok and escaped is None:
                    try:
                        code = json.loads(res.body.decode("utf8"))["faultcode"]
                    except Exception:
                        code = "?" + (res.status or "")
                shown = r[1]
            else:
                out = drive.server_call(app, r[1])
                escaped = out.escaped[0] if out.escaped else None
                ok = out.fault is None and escaped is None
                code = getattr(out.fault, "faultcode", None) if out.fault is not None else None
                shown = r[1][:300]
            fam_cls = "xmlfam" if fam in ("xml", "soap11") else ("dictfam" if fam != "http" else "http")
            base_sig = "%s|%s|%s|%s" % (tname if k in ("int",) and "width" in rel else k, rel, pos, fam_cls)
            if rel == "literal:empty":
                # one root cause whatever the type: empty text is read as null
                base_sig = "*|literal:empty|*|%s" % fam_cls
            if escaped is not None:
                et, where = F.exc_origin(escaped)
                fails.append(("C05|escaped|%s|%s|%s" % (et, where, fam_cls),
                              "%s/%s %r request %r: %r escaped; sent %r"
                              % (fam, pos, ts, lr, escaped, shown)))
            elif exp and not ok:
                fails.append(("C05|rejected-valid|" + base_sig,
                              "%s/%s type %r: request %r satisfies every declared constraint but was "
                              "answered with fault %r; sent %r" % (fam, pos, ts, lr, code, shown)))
            elif exp and len(calls) != 1:
                fails.append(("C05|accepted-but-calls!=1|" + base_sig,
                              "%s/%s: function ran %d times" % (fam, pos, len(calls))))
            elif not exp and (ok or calls):
                fails.append(("C05|accepted-invalid|" + base_sig,
                              "%s/%s type %r: request %r violates a declared constraint but the "
                              "function ran with %r; sent %r" % (fam, pos, ts, lr, calls[:1], shown)))
            elif not exp and not str(code).startswith("Client"):
                fails.append(("C05|reject-not-client-fault|%s|%s" % (fam_cls, code),
                              "%s/%s: request %r rejected with code %r" % (fam, pos, lr, code)))
            elif exp and lr["kind"] == "value":
                got = calls[0]
                if pos in ("field", "attr"):
                    got = getattr(got, "f", None)
                elif pos == "array_member":
                    got = got[0] if got else None
                if ts["occ"]["max"] != 1 and pos != "array_member" and isinstance(got, (list, tuple)):
                    got = got[0] if len(got) == 1 else got
                want = jv.dec(lr["v"])
                if k == "enum":
                    same = str(got) == want
                elif k == "bytes" and len(want) == 0:
                    same = got is None or eq.leaf_eq(k, got, want)
                elif k == "text" and want == "":
                    same = got in ("", None)
                else:
                    same = eq.leaf_eq(k, got, want)
                if not same:
                    fails.append(("C05|accepted-wrong-value|%s|%s|%s" % (k, pos, fam_cls),
                                  "%s/%s: sent %r, function received %r" % (fam, pos, want, got)))
            nt = None
            if rel != "inside":
                nt = {"k": k, "t": tname if "width" in rel else "", "rel": rel, "pos": pos, "fam": fam}
            rec.case({"ts": ts, "pos": pos, "lr": lr, "fam": fam, "tns": case["tns"]},
                     failures=[], nontrivial=nt,
                     classes=["fam:" + fam, "pos:" + pos, "kind:" + k, "lr:" + lr["kind"],
                              "expect:%s" % exp])
    if fails:
        for sig, msg in fails:
            rec.fail(sig, msg, {k2: v for k2, v in case.items() if not k2.startswith("_")})
    return fails


# ---------------------------------------------------------------- exhaustive part
def width_cases(full16):
    out = []
    for bits in (8, 16, 32, 64):
        for t, lo, hi in (("Integer%d" % bits, -2 ** (bits - 1), 2 ** (bits - 1) - 1),
                          ("UnsignedInteger%d" % bits, 0, 2 ** bits - 1)):
            if full16 and bits <= 16:
                vals = list(range(lo - 3, hi + 4))
            else:
                vals = [lo - 3, lo - 2, lo - 1, lo, lo + 1, hi - 1, hi, hi + 1, hi + 2, hi + 3]
            for pos in ("arg", "field", "array_member", "attr"):
                ts = {"k": "prim", "t": t, "f": {}, "occ": {"min": 0, "max": 1, "nillable": True}}
                for i in range(0, len(vals), 400):
                    out.append({"ts": ts, "pos": pos, "tns": "urn:c05w%s%s%d" % (t, pos, i),
                                "lrs": [{"kind": "value", "v": jv.enc(v)} for v in vals[i:i + 400]]})
    return out


def shards(tier):
    n = 500 if tier == "quick" else 8000
    out = [{"kind": "hyp", "i": i, "n": n} for i in range(16)]
    wc = width_cases(tier == "thorough")
    for i in range(0, len(wc), 8):
        out.append({"kind": "enum", "part": "width", "lo": i, "hi": min(len(wc), i + 8),
                    "full16": tier == "thorough"})
    return out


def run_shard(shard, rec):
    if shard["kind"] == "hyp":
        rec.hyp(cases(rec.tier), lambda case: run_case(case, rec), shard["n"])
    else:
        wc = width_cases(shard["full16"])
        for c in wc[shard["lo"]:shard["hi"]]:
            run_case(c, rec)


class _NullRec(object):
    tier = "quick"

    def case(self, *a, **k):
        pass

    def count(self, *a, **k):
        pass

    def fail(self, *a, **k):
        pass


def replay(case):
    return run_case(case, _NullRec())
