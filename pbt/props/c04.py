"""C04 — User code only ever receives values of the declared types.

case = valid request of C01 / C02 / C03's generators + a list of type-directed mutations:
  XML family : set xsi:type on any element to any class key known to the interface (generated
               classes, customised simple types, array wrappers, message classes), with the
               prefix bound correctly, not bound at all, or bound to another namespace
  dict family: replace the value at any node by a value of another JSON kind (scalar / map /
               list / bool / null), rename wrapper keys to another known class or an unknown
               name (ignore_wrappers=False), positional lists of the wrong arity
  HttpRpc    : a scalar where an object path is expected and a deeper path where a scalar is
Oracle: whenever the user function runs, a walk of every argument (and nested member) against
the declared spec finds only None, instances of the declared native type / of a registered
subclass of the declared class, or lists of such.  Otherwise the reply must be a fault of the
Client family; nothing may escape.
"""
import copy
import datetime as dtm
import decimal
import json
import uuid

import msgpack
import yaml
from hypothesis import strategies as st
from lxml import etree

from .. import build, drive, spec, values, ref_dict, ref_flat, ref_xml
from .. import findings as F
from ..spec import PRIM_KIND
from . import c01, c02, c03

PROPERTY = "C04"
RULE = ("cases = valid requests (generators of C01/C02/C03) x type-directed mutations: xsi:type "
        "retagging of any element with any class key of the interface (prefix bound / unbound / "
        "shadowed) for XmlDocument/Soap11/Soap12 x validator None/soft/lxml; JSON-kind swaps at "
        "any node, wrapper-key renames and wrong-arity positional lists for JSON/YAML/MessagePack "
        "x validator soft; scalar-vs-object path confusions for HttpRpc x soft. Oracle: declared-"
        "type walk of everything the user function received; otherwise a Client-family fault. "
        "Non-trivial = the mutated node lies on a declared path and the unmutated request invokes "
        "the function; distinct = (family, mutation kind, declared kind at the node, injected kind)")
ASSUMPTIONS = [
    "Double accepts a JSON integer (numeric tower); Decimal accepts int",
    "retagging with the declared class or a registered subclass is legal and may be accepted",
]
MAXTASKSPERCHILD = 4

NATIVE = {
    "int": lambda v: type(v) is int,
    "dec": lambda v: isinstance(v, (decimal.Decimal, int)) and not isinstance(v, bool),
    "double": lambda v: isinstance(v, (float, int)) and not isinstance(v, bool),
    "bool": lambda v: isinstance(v, bool),
    "text": lambda v: isinstance(v, str),
    "dt": lambda v: isinstance(v, dtm.datetime),
    "date": lambda v: type(v) is dtm.date,
    "time": lambda v: isinstance(v, dtm.time),
    "td": lambda v: isinstance(v, dtm.timedelta),
    "uuid": lambda v: isinstance(v, uuid.UUID),
    "bytes": lambda v: isinstance(v, (bytes, bytearray, memoryview)) or (
        isinstance(v, (list, tuple)) and all(isinstance(x, (bytes, bytearray, memoryview)) for x in v)),
}


def type_violation(B, t, v, path="", depth=0):
    """-> None, or (declared kind, description) for the first value of a foreign type"""
    if v is None or depth > 12:
        return None
    occ = t.get("occ") or {}
    if occ.get("max", 1) != 1 and t["k"] not in ("attr", "data"):
        if not isinstance(v, (list, tuple)):
            if hasattr(v, "__iter__") and not isinstance(v, (str, bytes, dict)):
                v = list(v)
            else:
                return "list", "%s: expected a list, got %s %r" % (path, type(v).__name__, v)
        t1 = dict(t, occ=dict(occ, max=1))
        for i, x in enumerate(v):
            r = type_violation(B, t1, x, "%s[%d]" % (path, i), depth + 1)
            if r:
                return r
        return None
    k = t["k"]
    if k in ("attr", "data"):
        return type_violation(B, t["of"], v, path, depth)
    if k == "prim":
        kind = PRIM_KIND[t["t"]]
        if not NATIVE[kind](v):
            return kind, "%s: declared %s, got %s %r" % (path, t["t"], type(v).__name__, v)
        return None
    if k == "enum":
        en = B.enums[t["n"]]
        ok = any(v is getattr(en, name, object()) for name in B.espec[t["n"]]["values"])
        return None if ok else ("enum", "%s: declared enum %s, got %s %r" % (path, t["n"], type(v).__name__, v))
    if k == "array":
        if isinstance(v, (str, bytes, dict)) or not hasattr(v, "__iter__"):
            return "array", "%s: declared array, got %s %r" % (path, type(v).__name__, v)
        for i, x in enumerate(list(v)):
            r = type_violation(B, t["of"], x, "%s[%d]" % (path, i), depth + 1)
            if r:
                return r
        return None
    if k == "ref":
        cls = B.classes[t["n"]]
        orig = getattr(cls, "__orig__", None) or cls
        if not isinstance(v, orig):
            return "object", "%s: declared %s, got %s %r" % (path, t["n"], type(v).__name__, v)
        # the runtime class decides which members exist (registered subclass)
        cname = None
        for n, c in B.classes.items():
            if type(v) is c or (getattr(type(v), "__orig__", None) is c):
                cname = n
        for fn, ft in B.all_fields(cname or t["n"]):
            r = type_violation(B, ft, getattr(v, fn, None), "%s.%s" % (path, fn), depth + 1)
            if r:
                return r
        return None
    return None


# ---------------------------------------------------------------- cases
def cases(tier):
    mut = st.lists(st.tuples(st.integers(0, 10 ** 6), st.integers(0, 10 ** 6), st.integers(0, 10 ** 6)),
                   min_size=4, max_size=24)

    def tag(fam):
        return lambda t: {"fam": fam, "base": t[0], "muts": [list(x) for x in t[1]]}
    return st.one_of(
        st.tuples(c01.cases(tier), mut).map(tag("xml")),
        # every element x every class key of the interface (prefix bound)
        st.tuples(c01.cases(tier), mut).map(tag("xml")).map(lambda c: dict(c, all=True)),
        st.tuples(c02.cases(tier), mut).map(tag("dict")),
        st.tuples(c03.cases(tier), mut).map(tag("http")))


ALL_CAP = 800    # retaggings per exhaustive case (elements x keys, strided above that)

INJECT = [1, "s", True, None, {}, [], {"x": 1}, [1, 2], 1.5, "2020-01-01", {"C0": {}}, [[1]],
          2.0, 1e20, 0, 0.0, False, ""]


def _kind(x):
    if x is None:
        return "null"
    if isinstance(x, bool):
        return "bool"
    if isinstance(x, int):
        return "int"
    if isinstance(x, float):
        return "float"
    if isinstance(x, (str, bytes)):
        return "string"
    if isinstance(x, dict):
        return "map"
    return "list"


def _paths(doc, pre=()):
    """all node paths of a JSON-like document (below the method key)"""
    out = [pre]
    if isinstance(doc, dict):
        for k in doc:
            out.extend(_paths(doc[k], pre + (k,)))
    elif isinstance(doc, list):
        for i, x in enumerate(doc):
            out.extend(_paths(x, pre + (i,)))
    return out


def _set(doc, path, val):
    d = doc
    for p in path[:-1]:
        d = d[p]
    d[path[-1]] = val


def _get(doc, path):
    for p in path:
        doc = doc[p]
    return doc


def _verdict(fam, base, B, m, calls, escaped, fault, fails, mk, info):
    if escaped is not None:
        et, where = F.exc_origin(escaped)
        fails.append(("C04|escaped|%s|%s|%s|%s" % (fam, mk, et, where),
                      "%s: %r escaped for mutation %s" % (fam, escaped, info)))
        return "escaped"
    if calls:
        for call in calls:
            name, args, hdr = call
            for (an, at), g in zip(m["args"], args):
                r = type_violation(B, at, g, an)
                if r:
                    fails.append(("C04|foreign-value|%s|%s|declared-%s" % (fam, mk, r[0]),
                                  "%s: the function received a value of an undeclared type: %s\n"
                                  "mutation: %s" % (fam, r[1], info)))
                    return "ran-bad"
        return "ran-ok"
    if fault is not None:
        code = str(getattr(fault, "faultcode", fault))
        if not code.startswith("Client"):
            fails.append(("C04|not-a-client-fault|%s|%s|%s" % (fam, mk, code.split(".")[0]),
                          "%s: mutation %s answered with fault %r" % (fam, info, fault)))
        return "fault"
    return "no-call"


def run_xml(case, rec):
    fails = []
    base = case["base"]
    try:
        E = c01.Env(base)
        req_body = E.request_element()
    except Exception:
        rec.case(case, classes=["xml:build-skip"])
        return fails
    if not E.schema.validate(req_body):
        rec.case(case, classes=["xml:base-invalid"])
        return fails
    keys = sorted(E.app.interface.classes.keys())
    elements = [e for e in req_body.iter() if isinstance(e.tag, str)]
    m = base["m"]
    labels = set()
    muts = case["muts"]
    if case.get("all"):
        pairs = [(a, b, 0) for a in range(len(elements)) for b in range(len(keys))]
        stride = max(1, len(pairs) // ALL_CAP)
        off = case["muts"][0][0] % stride
        muts = pairs[off::stride] + [tuple(x) for x in case["muts"]]
        rec.count("xml:exhaustive-cases")
        if stride == 1:
            rec.count("xml:exhaustive-cases-complete")
    for (a, b, c) in muts:
        body = copy.deepcopy(req_body)
        els = [e for e in body.iter() if isinstance(e.tag, str)]
        el = els[a % len(els)]
        key = keys[b % len(keys)]
        ns, name = key[1:].split("}", 1) if key.startswith("{") else (None, key)
        bind = ("bound", "unbound", "shadowed")[c % 3]
        if bind == "bound" and ns:
            new = etree.Element(el.tag, nsmap=dict(el.nsmap, zq=ns))
        elif bind == "shadowed" and ns:
            new = etree.Element(el.tag, nsmap=dict(el.nsmap, zq="urn:some:other:namespace"))
        else:
            new = etree.Element(el.tag, nsmap=el.nsmap)
        new.text, new.tail = el.text, el.tail
        for k2, v2 in el.attrib.items():
            new.set(k2, v2)
        for ch in list(el):
            new.append(ch)
        pfx = "zq"
        if bind == "bound" and ns:
            # lxml drops a redundant declaration when the element is moved under a parent
            # that already binds the namespace: use the prefix in scope
            for p_, u_ in el.nsmap.items():
                if u_ == ns and p_:
                    pfx = p_
        new.set(ref_xml.XSI_TYPE, "%s:%s" % (pfx, name))
        if el.getparent() is None:
            body = new
        else:
            el.getparent().replace(el, new)
        req = etree.tostring(E.wrap(body))
        E.rec.reset()
        out = drive.server_call(E.app, req)
        depth = len(list(new.iterancestors()))
        mk = "xsi:type:%s" % bind
        info = "xsi:type=%r (%s) on <%s> depth %d; validator=%s\n%s" % (
            key, bind, etree.QName(new).localname, depth, base["validator"], req[:700])
        v = _verdict("xml/%s" % base["validator"], base, E.B, m, list(E.rec.calls),
                     out.escaped[0] if out.escaped else None, out.fault, fails, mk, info)
        kind_cls = "message" if name.startswith(m["name"]) else ("xs" if ns == ref_xml.XS else "class")
        labels.add((mk, kind_cls, "depth%d" % min(depth, 3), v))
        rec.count("xml:" + v)
    for lab in labels:
        rec.case(case, nontrivial={"fam": "xml", "val": base["validator"], "lab": list(lab)},
                 classes=["xml:%s:%s" % (lab[0], lab[3])])
    rec.case(case, failures=fails, classes=["fam:xml"])
    return fails


def run_dict(case, rec):
    fails = []
    base = dict(case["base"], validator="soft")
    m = base["m"]
    try:
        B = build.Built(base["U"])
        R = build.Recorder()
        svc = build.make_service(B, "Svc", [m], R)
        inp, outp = c02._protocols(base)
        app = build.make_app([svc], base["U"]["tns"], inp, outp)
        rets = [B.to_native(t, j) for t, j in zip(m["ret"], base["rets"])]
        R.script[m["name"]] = (lambda ctx, a: None) if not rets else \
            ((lambda ctx, a: rets[0]) if len(rets) == 1 else (lambda ctx, a: tuple(rets)))
        C = ref_dict.Codec(base["U"], ref_dict.Cfg(
            "msgpack" if base["prot"].startswith("msgpack") else base["prot"],
            wrappers=base["wrappers"], complex_as=base["complex_as"], str_keys=True))
        rpc = base["prot"] == "msgpackrpc"
        doc = C.request(m, base["args"], rpc=rpc)
    except Exception:
        rec.case(case, classes=["dict:build-skip"])
        return fails
    paths = [p for p in _paths(doc) if len(p) >= 1]
    labels = set()
    for (a, b, c) in case["muts"]:
        d2 = copy.deepcopy(doc)
        p = paths[a % len(paths)]
        old = _get(d2, p)
        if c % 5 == 0 and isinstance(old, dict) and len(old) == 1 and base["wrappers"]:
            # rename a wrapper key to another class name / an unknown one
            names = [c_["name"] for c_ in base["U"]["classes"]] + ["Nope", m["name"], "string"]
            (k0, v0), = old.items()
            new = {names[b % len(names)]: v0}
            mk = "wrapper-rename"
        elif c % 5 == 1 and isinstance(old, list):
            new = old + [old[0] if old else 1] * (1 + b % 3) if b % 2 else old[:-1]
            mk = "arity"
        else:
            inj = INJECT[b % len(INJECT)]
            if _kind(inj) == _kind(old):
                inj = INJECT[(b + 1) % len(INJECT)]
            new = copy.deepcopy(inj)
            mk = "kind:%s->%s" % (_kind(old), _kind(new))
        if len(p) == 0:
            continue
        _set(d2, p, new)
        try:
            body = c02.dumps(base, d2)
        except Exception:
            continue
        R.reset()
        out = drive.server_call(app, body)
        info = "%s at %r in %r; config %s/w=%s/%s" % (mk, p, d2, base["prot"], base["wrappers"], base["complex_as"])
        v = _verdict("dict", base, B, m, list(R.calls), out.escaped[0] if out.escaped else None,
                     out.fault, fails, mk.split(":")[0] + (":" + mk.split("->")[1] if "->" in mk else ""), info)
        labels.add((mk, base["prot"], v))
        rec.count("dict:" + v)
    for lab in labels:
        rec.case(case, nontrivial={"fam": "dict", "lab": list(lab)},
                 classes=["dict:%s:%s" % (lab[0].split(":")[0], lab[2])])
    rec.case(case, failures=fails, classes=["fam:dict"])
    return fails


def run_http(case, rec):
    from spyne.protocol.http import HttpRpc
    from spyne.server.wsgi import WsgiApplication
    fails = []
    base = dict(case["base"], validator="soft")
    U, m = base["U"], base["m"]
    try:
        B = build.Built(U)
        R = build.Recorder()
        svc = build.make_service(B, "Svc", [m], R)
        app = build.make_app([svc], U["tns"], HttpRpc(validator="soft", hier_delim=base["delim"],
                                                      strict_arrays=base["strict"]), HttpRpc())
        rets = [B.to_native(t, j) for t, j in zip(m["ret"], base["rets"])]
        R.script[m["name"]] = (lambda ctx, a: rets[0]) if rets else (lambda ctx, a: None)
        wsgi = WsgiApplication(app)
        fl = ref_flat.Flat(U, base["delim"])
        pairs = fl.request_pairs(m, base["args"])
    except Exception:
        rec.case(case, classes=["http:build-skip"])
        return fails
    if not pairs:
        rec.case(case, classes=["http:no-pairs"])
        return fails
    labels = set()
    for (a, b, c) in case["muts"]:
        ps = list(pairs)
        i = a % len(ps)
        k, v = ps[i]
        d = base["delim"]
        choice = c % 4
        if choice == 0 and d in k:
            ps[i] = (k.rsplit(d, 1)[0], v)                # scalar where an object is expected
            mk = "scalar-for-object"
        elif choice == 1:
            ps[i] = (k + d + "x", v)                      # deeper path where a scalar is expected
            mk = "object-for-scalar"
        elif choice == 2:
            ps.insert(i, (k, ["abc", "1", "", "2020-01-01", "true"][b % 5]))   # duplicate key
            mk = "duplicate-key"
        else:
            ps[i] = (k, ["abc", "[1,2]", "{}", "null", "1e999", "\x00"][b % 6])
            mk = "garbage-value"
        qs = ref_flat.query_string(ps)
        R.reset()
        res = drive.wsgi_call(wsgi, drive.environ("GET", "/m0", qs, content_type=None, content_length=None))
        fault = None
        if res.escaped is None and not (res.status or "").startswith("200"):
            code = res.body.split(b"\n")[0].decode("utf8", "replace") if res.chunks and all(
                isinstance(x, bytes) for x in res.chunks) else "?"

            class _Fl(object):
                faultcode = code
            fault = _Fl()
        v2 = _verdict("http", base, B, m, list(R.calls), res.escaped, fault, fails, mk,
                      "%s: query %s" % (mk, qs[:500]))
        labels.add((mk, v2))
        rec.count("http:" + v2)
    for lab in labels:
        rec.case(case, nontrivial={"fam": "http", "lab": list(lab)},
                 classes=["http:%s:%s" % lab])
    rec.case(case, failures=fails, classes=["fam:http"])
    return fails


def run_case(case, rec):
    fam = case["fam"]
    if fam == "xml":
        return run_xml(case, rec)
    if fam == "dict":
        return run_dict(case, rec)
    return run_http(case, rec)


def shards(tier):
    n = 400 if tier == "quick" else 6000
    return [{"kind": "hyp", "i": i, "n": n} for i in range(16)]


def run_shard(shard, rec):
    rec.hyp(cases(rec.tier), lambda case: run_case(case, rec), shard["n"])


class _NullRec(object):
    tier = "quick"

    def case(self, *a, **k):
        pass

    def count(self, *a, **k):
        pass


def replay(case):
    return run_case(case, _NullRec())
