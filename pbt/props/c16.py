"""C16 — Inheritance and polymorphism preserve the runtime class.

case = (class tree, signature taking/returning the base class (also arrays / repeated members
        of the base holding mixed subclasses), instances of every class of the tree,
        protocol family, polymorphic on/off)
XML family  : XmlDocument / Soap11 / Soap12;  dict family: JSON / YAML / MessagePack with
ignore_wrappers=False.  Both directions: spyne client -> server function, function -> reply ->
independent reference decoder and spyne client.
"""
import json

import msgpack
import yaml
from hypothesis import strategies as st
from lxml import etree

from .. import build, drive, spec, values, ref_xml, ref_dict
from .. import findings as F
from ..ref_xml import q
from . import c01

PROPERTY = "C16"
RULE = ("cases = (generated class tree of depth <=3 with subclasses in their base's namespace, "
        "wrapped signature whose arguments / return are the base class, arrays or repeated "
        "members of it, values whose runtime classes are drawn from the whole subtree, protocol "
        "in {xml,soap11,soap12,json,yaml,msgpack(ignore_wrappers=False)}, polymorphic on/off); "
        "oracles: ancestors-then-own member order on the wire, type marker resolves in the "
        "document and names a schema type, receiver (server function, reference decoder, spyne "
        "client) sees the sent subclass with equal fields; polymorphic off => only the declared "
        "class's members on the wire. Non-trivial = an instance whose class differs from the "
        "declared one (at depth>=1 or inside an array counts separately); distinct = hash of "
        "(tree shape, value classes, config)")
ASSUMPTIONS = [
    "subclasses are declared in the namespace of their base (the only placement the interface "
    "registers for substitution)",
    "the spyne client serialises wrapped calls only",
]
MAXTASKSPERCHILD = 4


def cases(tier):
    @st.composite
    def one(draw):
        prot = draw(st.sampled_from(["xml", "soap11", "soap12", "json", "yaml", "msgpack"]))
        U = draw(spec.universes(max_classes=4, xml=prot in ("xml", "soap11", "soap12"),
                                inheritance=True, same_names=False))
        cs = U["classes"]
        # force a tree: make sure at least one class extends another
        if len(cs) < 2:
            base = {"name": "C0", "ns": U["tns"], "extends": None,
                    "fields": [["a", {"k": "prim", "t": "Integer", "f": {},
                                      "occ": {"min": 0, "max": 1, "nillable": True}}]]}
            sub = {"name": "C1", "ns": U["tns"], "extends": "C0",
                   "fields": [["b", {"k": "prim", "t": "Unicode", "f": {},
                                     "occ": {"min": 0, "max": 1, "nillable": True}}]]}
            U["classes"] = cs = [base, sub]
        elif not any(c["extends"] for c in cs):
            inherited = set(f[0] for f in cs[0]["fields"])
            cs[-1]["extends"] = cs[0]["name"]
            cs[-1]["ns"] = cs[0]["ns"]
            cs[-1]["fields"] = [f for f in cs[-1]["fields"] if f[0] not in inherited] or \
                [["zz", {"k": "prim", "t": "Integer", "f": {}, "occ": {"min": 0, "max": 1, "nillable": True}}]]
            # members of the re-parented class must not refer to itself
        late = draw(st.integers(0, 2)) == 0
        if late and len(cs) >= 3:
            # a chain C0 <- C1 <- C2 (fresh member names, plain members: customizing any type
            # while the late class is declared would reset the very caches whose staleness this
            # history is about); the deepest class is the one declared late (_late_history)
            zz = {"k": "prim", "t": "Integer", "f": {}, "occ": {"min": 0, "max": 1, "nillable": True}}
            uu = {"k": "prim", "t": "Unicode", "f": {}, "occ": {"min": 0, "max": 1, "nillable": True}}
            cs[0]["extends"] = None
            cs[0].pop("type_name", None)
            own = set(f[0] for f in cs[0]["fields"])
            c1 = {"name": cs[1]["name"], "ns": cs[0]["ns"], "extends": cs[0]["name"],
                  "fields": [[n, dict(t)] for n, t in (("mid_i", zz), ("mid_s", uu)) if n not in own]}
            c2 = {"name": cs[2]["name"], "ns": cs[0]["ns"], "extends": cs[1]["name"],
                  "fields": [[n, dict(t)] for n, t in (("late_i", zz), ("late_s", uu)) if n not in own]}
            U["classes"] = cs = [cs[0], c1, c2]
        bases = sorted(set(c["extends"] for c in cs if c["extends"]))
        base = cs[0]["name"] if (late and len(cs) >= 3) else draw(st.sampled_from(bases))
        shape = draw(st.sampled_from(["one", "one", "array", "multi"]))
        # the declared type is the class itself or a customized variant of it (possibly
        # customized again by Array): substitution must work for all of them
        nil = draw(st.sampled_from([True, True, False]))
        mn = draw(st.sampled_from([0, 0, 1]))
        occ1 = {"min": mn, "max": 1, "nillable": nil}
        if shape == "one":
            t = {"k": "ref", "n": base, "occ": occ1}
        elif shape == "array":
            inner = {"k": "ref", "n": base}
            if draw(st.booleans()):
                inner["occ"] = {"min": 0, "max": 1, "nillable": draw(st.booleans())}
            t = {"k": "array", "of": inner, "occ": occ1}
        else:
            t = {"k": "ref", "n": base, "occ": {"min": mn, "max": "unbounded", "nillable": nil}}
        m = {"name": "m0", "args": [["a", t]], "ret": [t], "style": "wrapped"}
        poly = draw(st.sampled_from([True, True, False]))
        vg = values.ValueGen(U, special_floats=False, poly=True, nil_items=True)
        arg = draw(vg.value(t).filter(lambda v: v is not None))
        ret = draw(vg.value(t).filter(lambda v: v is not None))
        if draw(st.integers(0, 4)) == 0:
            # a subclass instance WITHOUT any member set (an empty element / empty map that
            # still has to carry its type marker)
            subs = [c["name"] for c in cs if c["name"] != base and vg.subclasses(base).count(c["name"])]
            ok = [n for n in subs if all((ft.get("occ") or {}).get("min", 0) == 0 for _, ft in vg.all_fields(n))]
            if ok:
                empty = {"$obj": draw(st.sampled_from(ok)), "f": {}}
                if isinstance(arg, list):
                    arg = [empty] + arg[1:]
                    ret = [empty] + ret[1:] if isinstance(ret, list) else ret
                else:
                    arg, ret = empty, dict(empty)
        return {"U": U, "m": m, "args": [arg], "rets": [ret], "prot": prot, "poly": poly,
                "late": late,
                # (drawn last: the rest of the case is what it was before this flag existed)
                "late_running": bool(late and draw(st.booleans())),
                "validator": None, "variant": 0}
    return one()


def _late_history(case):
    """A class of the tree that derives from a SUBCLASS of the declared base is declared only
    after an application over the rest of the tree has been built and has served a request
    (incrementally grown class trees): the application under test, built afterwards, must know
    it like any other.  -> build.Built shared by both applications, or None"""
    U, m = case["U"], case["m"]
    if not case.get("late"):
        return None, None
    cs = {c["name"]: c for c in U["classes"]}
    t = m["args"][0][1]
    base = (t["of"] if t["k"] == "array" else t)["n"]
    referenced = set()
    for c in U["classes"]:
        for _, ft in c["fields"]:
            x = ft
            while isinstance(x, dict):
                if x.get("k") == "ref":
                    referenced.add(x["n"])
                x = x.get("of")
    late = [c["name"] for c in U["classes"]
            if c["extends"] and cs[c["extends"]]["extends"] is not None and c["name"] != base
            and c["name"] not in referenced and not any(d["extends"] == c["name"] for d in U["classes"])]
    if not late:
        return None, None
    B = build.Built(U, hold=[late[-1]])
    try:
        v0 = {"$obj": base, "f": {}}
        occ = t.get("occ") or {}
        first = dict(case, args=[[v0] if (t["k"] == "array" or occ.get("max", 1) != 1) else v0],
                     rets=[[v0] if (t["k"] == "array" or occ.get("max", 1) != 1) else v0])
        E0 = c01.Env(first, protocols=_protocols, B=B)
        drive.loopback_call(E0.app, "m0", [B.to_native(t, first["args"][0])])
    except Exception:
        pass
    if case["prot"] in ("json", "yaml", "msgpack") and case.get("late_running"):
        # the dict protocols select the subclass by wrapper key at run time, so a class declared
        # while an application is RUNNING must be usable there too: the application under test
        # is built and serves a request with a plain base value first, then the class is declared
        def after_app(E):
            try:
                drive.loopback_call(E.app, "m0", [B.to_native(t, first["args"][0])])
            except Exception:
                pass
            E.rec.reset()
            B.declare(late[-1])
        return B, after_app
    B.declare(late[-1])
    return B, None


def _protocols(case):
    p, poly = case["prot"], case["poly"]
    if p in ("xml", "soap11", "soap12"):
        from spyne.protocol.xml import XmlDocument
        from spyne.protocol.soap import Soap11, Soap12
        cls = {"xml": XmlDocument, "soap11": Soap11, "soap12": Soap12}[p]
        return cls(polymorphic=poly), cls(polymorphic=poly)
    from spyne.protocol.json import JsonDocument
    from spyne.protocol.yaml import YamlDocument
    from spyne.protocol.msgpack import MessagePackDocument
    cls = {"json": JsonDocument, "yaml": YamlDocument, "msgpack": MessagePackDocument}[p]
    return cls(ignore_wrappers=False, polymorphic=poly), cls(ignore_wrappers=False, polymorphic=poly)


def strip_to_declared(U, t, v):
    """expected value when polymorphism is off: only the declared class's members travel"""
    cs = {c["name"]: c for c in U["classes"]}

    def fields(n):
        c = cs[n]
        return (fields(c["extends"]) if c["extends"] else []) + c["fields"]

    def go(t, v):
        if v is None:
            return None
        occ = t.get("occ") or {}
        if occ.get("max", 1) != 1 and t["k"] not in ("attr", "data"):
            t1 = dict(t, occ=dict(occ, max=1))
            return [go(t1, x) for x in v]
        if t["k"] == "array":
            return [go(t["of"], x) for x in v]
        if t["k"] == "ref":
            f = {}
            for fn, ft in fields(t["n"]):
                if fn in v["f"]:
                    f[fn] = go(ft, v["f"][fn])
            return {"$obj": t["n"], "f": f}
        return v
    return go(t, v)


def subclass_sites(U, t, v, depth=0, in_array=False, out=None):
    out = [] if out is None else out
    cs = {c["name"]: c for c in U["classes"]}

    def fields(n):
        c = cs[n]
        return (fields(c["extends"]) if c["extends"] else []) + c["fields"]
    if v is None:
        return out
    occ = t.get("occ") or {}
    if occ.get("max", 1) != 1 and t["k"] not in ("attr", "data"):
        t1 = dict(t, occ=dict(occ, max=1))
        for x in v:
            subclass_sites(U, t1, x, depth, True, out)
        return out
    if t["k"] == "array":
        for x in v:
            subclass_sites(U, t["of"], x, depth, True, out)
    elif t["k"] == "ref":
        cn = v.get("$obj", t["n"])
        if cn != t["n"]:
            out.append(("array" if in_array else "single", min(depth, 2)))
        for fn, ft in fields(cn):
            if fn in v["f"]:
                subclass_sites(U, ft, v["f"][fn], depth + 1, False, out)
    return out


def _xml_member_order_ok(E, el, cname):
    """children of an object element appear ancestors' members first, then own, in
    declaration order (repetitions adjacent)"""
    order = [fn for fn, ft in E.codec.fields(cname) if ft["k"] != "attr"]
    seen = []
    for ch in el:
        if not isinstance(ch.tag, str):
            continue
        ln = etree.QName(ch).localname
        if not seen or seen[-1] != ln:
            seen.append(ln)
    idx = [order.index(x) for x in seen if x in order]
    return idx == sorted(idx) and len(set(seen)) == len(seen)


def run_case(case, rec):
    fails = []
    U, m = case["U"], case["m"]
    prot, poly = case["prot"], case["poly"]
    t = m["args"][0][1]
    cfg = "%s/poly=%s" % (prot, poly)
    xmlfam = prot in ("xml", "soap11", "soap12")
    famsig = "xmlfam" if xmlfam else "dictfam"
    sites_arg = subclass_sites(U, t, case["args"][0])
    sites_ret = subclass_sites(U, t, case["rets"][0])
    try:
        B0, hook = _late_history(case)
        E = c01.Env(case, protocols=_protocols, B=B0, after_app=hook)
    except Exception as e:
        et, where = F.exc_origin(e)
        fails.append(("C16|build-raises|%s|%s" % (et, where), "building raised %r" % (e,)))
        rec.case(case, failures=fails, classes=["build_error"])
        return fails
    B = E.B
    native_arg = B.to_native(t, case["args"][0])
    exp_arg = case["args"][0] if poly else strip_to_declared(U, t, case["args"][0])
    exp_ret = case["rets"][0] if poly else strip_to_declared(U, t, case["rets"][0])
    # ---- direction 1: spyne client -> wire -> server function; reply -> spyne client
    client_leg = prot != "msgpack"
    if client_leg:
        req, out, res, err = drive.loopback_call(E.app, "m0", [native_arg])
    else:
        # MessagePackDocument writes text leaves as msgpack bin and cannot read them back
        # (a self-interop defect outside this property, see DESIGN): the request is built by
        # the reference codec with the documented conventions instead of the spyne client
        # map keys as msgpack str or bin (both are conventions the protocol reads), chosen by
        # a function of the value so that the case stays plain data
        codec0 = ref_dict.Codec(U, ref_dict.Cfg("msgpack", wrappers=True,
                                                str_keys=len(json.dumps(exp_arg, default=str)) % 2 == 0))
        req = msgpack.packb(codec0.request(m, [exp_arg]), use_bin_type=True)
        out = drive.server_call(E.app, req)
        res, err = None, None
    if req is None or out is None:
        et, where = F.exc_origin(err) if err is not None else ("?", "?")
        fails.append(("C16|client-cannot-serialise|%s|%s|%s" % (famsig, et, where),
                      "%s: spyne client raised %r" % (cfg, err)))
    elif out.escaped is not None or out.fault is not None:
        why = out.escaped[0] if out.escaped else out.fault
        et, where = F.exc_origin(out.escaped[0]) if out.escaped else (type(why).__name__, getattr(why, "faultcode", "?"))
        fails.append(("C16|server-rejects-client-request|%s|poly=%s|%s|%s" % (famsig, poly, et, where),
                      "%s: the server answered the spyne client's request with %r\nrequest: %s"
                      % (cfg, why, req[:800])))
    else:
        if len(E.rec.calls) != 1:
            fails.append(("C16|invocations!=1", "%s: %d invocations" % (cfg, len(E.rec.calls))))
        else:
            got = E.rec.calls[0][1][0]
            r = values.value_eq(B, t, got, exp_arg, path="a", exact_class=True)
            if r:
                fails.append(("C16|request|%s|poly=%s|%s" % (famsig, poly, _cls(r)),
                              "%s: the function received a different value: %s\nrequest: %s"
                              % (cfg, r, req[:800])))
        # the reply as the spyne client decodes it
        if not client_leg:
            pass
        elif err is not None:
            et, where = F.exc_origin(err)
            fails.append(("C16|client-cannot-decode-reply|%s|poly=%s|%s|%s" % (famsig, poly, et, where),
                          "%s: spyne client raised %r on the reply %s" % (cfg, err, (out.out_bytes or b"")[:600])))
        else:
            r = values.value_eq(B, t, res, exp_ret, path="ret", exact_class=True)
            if r:
                fails.append(("C16|client-reply|%s|poly=%s|%s" % (famsig, poly, _cls(r)),
                              "%s: the spyne client decodes the reply differently: %s\nreply: %s"
                              % (cfg, r, (out.out_bytes or b"")[:800])))
        # ---- the wire itself, read by the independent decoders
        for what, data, exp, names in (("request", req, exp_arg, ["a"]),
                                       ("reply", out.out_bytes, exp_ret, ["m0Result"])):
            try:
                if xmlfam:
                    doc = etree.fromstring(data)
                    el, _h = E.unwrap(doc)
                    root = "m0" if what == "request" else "m0Response"
                    tq = E.model.elements[(U["tns"], root)]
                    obj = E.codec.decode_members(el, tq, [(names[0], t)], root)
                    got = getattr(obj, names[0], None)
                    bad = _order_violation(E, el)
                    if bad:
                        fails.append(("C16|member-order|%s" % famsig,
                                      "%s: %s: members of %s are not ancestors-first: %s" % (cfg, what, bad, data[:600])))
                else:
                    codec = ref_dict.Codec(U, ref_dict.Cfg(prot, wrappers=True))
                    loads = {"json": lambda b: json.loads(b.decode("utf8")),
                             "yaml": lambda b: yaml.safe_load(b.decode("utf8")),
                             "msgpack": lambda b: msgpack.unpackb(b, raw=False, strict_map_key=False)}[prot]
                    d = loads(data)
                    if what == "request":
                        body = {codec._s(k): v for k, v in list(d.values())[0].items()}
                        got = codec.decode_slot(t, body.get("a"))
                    else:
                        got = codec.response(m, d)[0]
                r = values.value_eq(B, t, got, exp, path=what, exact_class=True)
                if r:
                    fails.append(("C16|wire-%s|%s|poly=%s|%s" % (what, famsig, poly, _cls(r)),
                                  "%s: the %s document denotes a different value: %s\n%s"
                                  % (cfg, what, r, data[:800])))
            except Exception as e:
                fails.append(("C16|wire-%s-undecodable|%s|poly=%s|%s" % (what, famsig, poly, _lexcls(e)),
                              "%s: the reference decoder cannot read the %s: %r\n%s"
                              % (cfg, what, e, (data or b"")[:800])))
    nt = None
    if sites_arg or sites_ret:
        nt = {"cfg": cfg, "arg": sorted(set(sites_arg)), "ret": sorted(set(sites_ret)),
              "shape": t["k"] + str((t.get("occ") or {}).get("max", 1)),
              "depth": max([_depth(U, c["name"]) for c in U["classes"]])}
    rec.case(case, failures=fails, nontrivial=nt,
             classes=["cfg:" + cfg] + ["site:%s:%d" % s for s in set(sites_arg + sites_ret)])
    return fails


def _order_violation(E, el):
    """first object element (carrying xsi:type or not) whose children are out of order"""
    for node in el.iter():
        if not isinstance(node.tag, str):
            continue
        xt = node.get(ref_xml.XSI_TYPE)
        if xt is None:
            continue
        n = xt.rpartition(":")[2]
        names = [c["name"] for c in E.case["U"]["classes"] if (c.get("type_name") or c["name"]) == n]
        if names and not _xml_member_order_ok(E, node, names[0]):
            return names[0]
    return None


def _depth(U, name):
    cs = {c["name"]: c for c in U["classes"]}
    d = 0
    while cs[name]["extends"]:
        name = cs[name]["extends"]
        d += 1
    return d


def _cls(r):
    for k in ("expected instance", "object, got", "expected None", "items, got", "elements, got"):
        if k in r:
            return k.replace(" ", "_").replace(",", "")
    return "member-value"


def _lexcls(e):
    s = str(e)
    for k in ("prefix not bound", "names no schema type", "not a class of the universe",
              "wrapper key", "unknown members", "wrapper map"):
        if k in s:
            return k.replace(" ", "_")
    return type(e).__name__


def shards(tier):
    n = 300 if tier == "quick" else 7000
    return [{"kind": "hyp", "i": i, "n": n} for i in range(16)]


def run_shard(shard, rec):
    rec.hyp(cases(rec.tier), lambda case: run_case(case, rec), shard["n"])


class _NullRec(object):
    tier = "quick"

    def case(self, *a, **k):
        pass

    def count(self, *a, **k):
        pass


def replay(case):
    return run_case(case, _NullRec())
