"""C17 — XML input is parsed with safe defaults.

case = (protocol in {xml, soap11, soap12}, validator in {None, soft, lxml}, transport in
        {server, wsgi, wsgi-swa}, base request id, position index, construct kind + parameters,
        canary number)

transport wsgi-swa = the same document sent as the root part of a multipart/related message
with one attachment (SOAP with attachments; soap11/soap12 only): Soap11.create_in_document
then lets protocol/soap/mime.py parse the envelope -- a second parse site.  Signatures
observed on that path carry the suffix |swa.

A case denotes ONE attack document: the valid base request with an attack construct placed
at one text position or one attribute-value position (namespace declarations included).
Documents are executed in batches inside a subprocess that runs under
`strace -f -e trace=openat,open,connect` with RLIMIT_AS, a per-document CPU timer and
per-document rusage deltas.

Oracles
  trace    : no open()/openat() of any canary file, no connect() to the loop-back listener
             (strace, attributed to the document through marker syscalls and the unique
             canary file name); the listener's accept count agrees with the trace.  Every
             subprocess first performs a CONTROL open+connect that must be visible in the
             trace, otherwise run_shard raises (harness error, never a pass).
  token    : the content of the canary file / the replacement text defined by the canary
             DTD never occurs in an argument captured by the user function nor in the reply
  internal : an internal general entity referenced in element text is not expanded
  bomb     : entity bombs end in Client.XMLSyntaxError or in a reply in which nothing was
             expanded; nesting deeper than libxml2's limit (256) ends in Client.XMLSyntaxError
  resource : <= 2 s CPU and <= 256 MiB peak RSS growth per document
  escaped  : no exception leaves the pipeline; the reply is normal or a Client.* fault
"""
import json
import os
import re
import shutil
import signal
import socket
import subprocess
import sys
import tempfile
import threading
import time

from hypothesis import strategies as st

PROPERTY = "C17"
RULE = ("cases = (protocol xml/soap11/soap12, validator None/soft/lxml, transport server/wsgi/"
        "wsgi-swa (multipart/related, soap only), "
        "base request echo/echo_obj/echo_arr, position, construct, parameters); positions = "
        "EVERY text slot (.text of every element, tail of every child) and EVERY attribute-value "
        "slot (attributes and namespace declarations) of the base request, enumerated; constructs "
        "= external general entity (file/http/ftp/relative), parameter entity pulling an external "
        "DTD, external DTD subset (SYSTEM/PUBLIC), XInclude, internal entity, entity chains "
        "fan-out 2-10 x depth 2-12, quadratic blow-up, recursive entities, nesting 100..100000, "
        "up to 1e5 attributes, text/attribute values up to 12 MB, all enumerated per position; "
        "Hypothesis draws the construct parameters (URL spelling, PUBLIC/SYSTEM, fan-out, depth, "
        "sizes, placement inside the base text, XML declaration, charset announcement, UTF-8/"
        "UTF-16). Non-trivial = the document with only the attack reference neutralised (DOCTYPE "
        "kept) is well-formed under a permissive reference parser, so the parser under test "
        "really meets the construct, and constructs that are well-formed XML by themselves parse "
        "in full; distinct = (protocol, validator, transport, construct, position kind)")
ASSUMPTIONS = [
    "strace sees every open/openat/connect of the subprocess (calibrated by a control in every subprocess)",
    "the bundled libxml2 (2.14) has no HTTP/FTP client: network contact cannot happen even with "
    "no_network=False, so the network oracle can only ever fire through lxml/spyne code",
    "libxml2 substitutes internal entities in attribute values on access: not asserted for attribute positions",
    "libxml2's own limits define 'bomb': expansion >= 2e7 bytes, element depth > 256",
    "WsgiApplication is built with its default max_content_length (2 MiB): larger documents "
    "are answered Client.RequestTooLong before any parsing",
    "only open/openat/connect are traced: a bare stat() of a canary path would go unnoticed",
    "the CPU bound is process CPU time (rusage), the memory bound is the growth of the RSS "
    "high-water mark (reset per document through /proc/self/clear_refs)",
]
EXHAUSTIVE = {
    "quick": ["every text and attribute-value position of 3 base requests x 3 protocols x 3 "
              "validators x 3 transports (SwA: soap only) x every applicable construct kind "
              "(15 text / 12 attribute)"],
    "thorough": ["every text and attribute-value position of 3 base requests x 3 protocols x 3 "
                 "validators x 3 transports (SwA: soap only) x every applicable construct kind "
                 "(15 text / 12 attribute)"],
}
SHRINKABLE = False      # cases are enumerated positions with small parameter records
MIN_NONTRIVIAL = 2

CPU_LIMIT_S = 2.0
MEM_LIMIT_KB = 256 * 1024
RLIMIT_AS_BYTES = 2 << 30
HARD_CPU_S = 6           # ITIMER_PROF: the kernel kills the subprocess (SIGPROF) beyond this
BATCH = 1500

PROTS = ("xml", "soap11", "soap12")
VALIDATORS = (None, "soft", "lxml")
TRANSPORTS = ("server", "wsgi", "wsgi-swa")    # wsgi-swa: multipart/related (SOAP with attachments), soap only
REQS = ("echo", "echo_obj", "echo_arr")
NS_ENV = {"soap11": "http://schemas.xmlsoap.org/soap/envelope/",
          "soap12": "http://www.w3.org/2003/05/soap-envelope"}
EXPECT = {"echo": ["hello"], "echo_obj": ["world", "attrval"], "echo_arr": ["one", "two"]}

TEXT_KINDS = ("ext-file", "ext-http", "ext-ftp", "ext-rel", "pe", "dtd-system", "dtd-public",
              "xinclude", "internal", "chain", "quad", "rec", "nest", "attrs", "hugetext")
ATTR_KINDS = ("ext-file", "ext-http", "ext-ftp", "ext-rel", "pe", "dtd-system", "dtd-public",
              "internal", "chain", "quad", "rec", "hugetext")
CANARY_KINDS = ("ext-file", "ext-http", "ext-ftp", "ext-rel", "pe", "dtd-system", "dtd-public",
                "xinclude")

INT_MARK = "C17INTMARKER"           # written as C17INT&#77;ARKER: only expansion produces it
INT_DECL = "C17INT&#77;ARKER"
LEAF_MARK = "C17BOMBLEAF"
LEAF_DECL = "C17BOMB&#76;EAF"
NET_TOKEN = "CANARYNETTOKEN"


# Sites at which an exception escapes for ANY request of a certain class, whatever the attack
# construct (every schema-invalid Soap12 request; every SwA request that is malformed or
# carries an encoding declaration): the construct is not part of the root cause there.
_ANY_SITES = ("protocol/soap/soap12.py:schema_validation_error_to_parent",
              "protocol/soap/mime.py:_join_attachment")


def family(kind, where=None):
    """construct part of `escaped` signatures (root-cause granularity): every construct that
    leaves an unresolved entity-reference node in the tree is the same root cause"""
    if where in _ANY_SITES:
        return "any"
    if kind.startswith(("ext-", "dtd-")) or kind in ("pe", "internal", "chain", "quad", "rec"):
        return "entity-ref"
    return kind


def tns_of(prot, validator):
    return "urn:c17:%s:%s" % (prot, validator or "none")


def txt_token(n):
    return "CANARY%sTOKEN" % n


def dtd_token(n):
    return "CANARY%sDTDTOKEN" % n


# ------------------------------------------------------------------ templates and positions
class El(object):
    def __init__(self, tag, attrs=(), kids=(), text=None):
        self.tag, self.attrs, self.kids, self.text = tag, list(attrs), list(kids), text


def _body(req, tns):
    x = [("xmlns:t", tns, "xmlns")]
    if req == "echo":
        return El("t:echo", x, [El("t:s", text="hello")])
    if req == "echo_obj":
        return El("t:echo_obj", x, [El("t:o", [("a", "attrval", "attr")],
                                       [El("t:s", text="world")])])
    if req == "echo_arr":
        return El("t:echo_arr", x, [El("t:l", [], [El("t:string", text="one"),
                                                   El("t:string", text="two")])])
    raise ValueError(req)


def _tree(prot, validator, req):
    body = _body(req, tns_of(prot, validator))
    if prot == "xml":
        return body
    at = [("xmlns:e", NS_ENV[prot], "xmlns")]
    if prot == "soap11":
        at.append(("e:encodingStyle", "http://schemas.xmlsoap.org/soap/encoding/", "attr"))
    return El("e:Envelope", at, [El("e:Body", [], [body])])


_tpl_cache = {}


def template(prot, validator, req):
    """-> (segments, slots).  segments: ('lit', s) | ('T', base) | ('A', base) | ('X', eid);
    slots: dicts describing the T/A segments in document order (= the position index)."""
    key = (prot, validator, req)
    if key in _tpl_cache:
        return _tpl_cache[key]
    segs, slots = [], []
    eid = [0]

    def ser(e, depth):
        me = eid[0]
        eid[0] += 1
        segs.append(("lit", "<" + e.tag))
        for name, val, pk in e.attrs:
            segs.append(("lit", ' %s="' % name))
            slots.append({"seg": len(segs), "t": "A", "pk": pk, "base": val, "eid": me,
                          "depth": depth, "own": False, "where": "%s/@%s" % (e.tag, name)})
            segs.append(("A", val))
            segs.append(("lit", '"'))
        segs.append(("X", me))
        segs.append(("lit", ">"))
        leaf = e.text is not None
        slots.append({"seg": len(segs), "t": "T", "pk": "text-leaf" if leaf else "text-elemonly",
                      "base": e.text or "", "eid": me, "depth": depth, "own": True,
                      "where": "%s/text()" % e.tag})
        segs.append(("T", e.text or ""))
        for k in e.kids:
            ser(k, depth + 1)
            slots.append({"seg": len(segs), "t": "T", "pk": "text-elemonly", "base": "",
                          "eid": me, "depth": depth, "own": False,
                          "where": "%s/after-%s" % (e.tag, k.tag)})
            segs.append(("T", ""))
        segs.append(("lit", "</%s>" % e.tag))

    root = _tree(prot, validator, req)
    ser(root, 1)
    _tpl_cache[key] = (segs, slots, root.tag)
    return _tpl_cache[key]


def slot_kinds(slot):
    if slot["t"] == "A":
        return ATTR_KINDS
    return tuple(k for k in TEXT_KINDS if k != "attrs" or slot["own"])


def enumerate_slots(prot, validator, req):
    """[(position index, construct kind)] — the exhaustive part of the domain"""
    _, slots, _ = template(prot, validator, req)
    return [(i, k) for i, s in enumerate(slots) for k in slot_kinds(s)]


def _render(segs, seg_idx, payload, extra=None):
    """-> (text, offset of the payload / of the extra attributes)"""
    out, off, n = [], None, 0
    for i, sg in enumerate(segs):
        if i == seg_idx:
            s = payload
            if extra is None:
                off = n
        elif sg[0] == "X":
            if extra is not None and sg[1] == extra[0]:
                s = extra[1]
                off = n
            else:
                s = ""
        else:
            s = sg[1]
        out.append(s)
        n += len(s)
    return "".join(out), off


def _place(base, payload, place):
    if place == "replace" or not base:
        return payload
    if place == "prefix":
        return payload + base
    if place == "suffix":
        return base + payload
    k = len(base) // 2
    return base[:k] + payload + base[k:]


def _url(scheme, form, cdir, port, fname):
    path = cdir + "/" + fname
    if scheme == "file":
        return {"file://": "file://" + path, "file:": "file:" + path, "abs": path}[form]
    if scheme == "rel":
        return fname if form != "abs" else "./" + fname
    return "%s://127.0.0.1:%d/%s" % (scheme, port, fname)


_DECL = {"none": "", "utf8": '<?xml version="1.0" encoding="UTF-8"?>',
         "plain": '<?xml version="1.0"?>', "standalone": '<?xml version="1.0" standalone="yes"?>'}


class Doc(object):
    pass


def build_doc(case, cdir, port):
    """pure function of (case, canary directory, listener port) -> Doc"""
    segs, slots, roottag = template(case["prot"], case["validator"], case["req"])
    sl = slots[case["pos"]]
    kind, p, n = case["kind"], case["p"], case["canary"]
    rootname = roottag if p.get("root") == "actual" else "x"
    form = p.get("form", "file://")
    d = Doc()
    d.slot, d.kind = sl, kind
    d.tokens, d.bomb, d.must_syntax = [], False, False
    doctype, payload, extra, ref = "", "", None, ""

    def dt(subset=None, ext=None):
        s = "<!DOCTYPE " + rootname
        if ext:
            s += " " + ext
        if subset is not None:
            s += " [" + subset + "]"
        return s + ">"

    if kind.startswith("ext-"):
        u = _url(kind[4:], form, cdir, port, "canary_%d.txt" % n)
        idp = ('PUBLIC "-//C17//ENT %d//EN" "%s"' % (n, u)) if p.get("pub") else 'SYSTEM "%s"' % u
        doctype = dt("<!ENTITY e %s>" % idp)
        ref = "&e;" * p.get("nref", 1)
        d.tokens = [txt_token(n), NET_TOKEN]
    elif kind == "pe":
        u = _url(p.get("scheme", "file"), form, cdir, port, "canary_%d.dtd" % n)
        doctype = dt('<!ENTITY %% p SYSTEM "%s"> %%p;' % u)
        ref = "&c;" if p.get("ref", True) else ""
        d.tokens = [dtd_token(n), NET_TOKEN]
    elif kind in ("dtd-system", "dtd-public"):
        u = _url(p.get("scheme", "file"), form, cdir, port, "canary_%d.dtd" % n)
        ext = 'SYSTEM "%s"' % u if kind == "dtd-system" else 'PUBLIC "-//C17//DTD %d//EN" "%s"' % (n, u)
        doctype = dt('<!ENTITY z "zz">' if p.get("subset") else None, ext)
        ref = "&c;" if p.get("ref", True) else ""
        d.tokens = [dtd_token(n), NET_TOKEN]
    elif kind == "xinclude":
        u = _url(p.get("scheme", "file"), form, cdir, port, "canary_%d.txt" % n)
        ref = ('<xi:include xmlns:xi="http://www.w3.org/2001/XInclude" href="%s" parse="%s"/>'
               % (u, p.get("parse", "text")))
        d.tokens = [txt_token(n), NET_TOKEN]
    elif kind == "internal":
        doctype = dt('<!ENTITY e "%s">' % INT_DECL)
        ref = "&e;" * p.get("nref", 1)
    elif kind == "chain":
        fan, depth = p["fan"], p["depth"]
        leaf = LEAF_DECL + "x" * p.get("pad", 0)
        decls = ['<!ENTITY a0 "%s">' % leaf]
        for i in range(1, depth + 1):
            decls.append('<!ENTITY a%d "%s">' % (i, ("&a%d;" % (i - 1)) * fan))
        doctype = dt("".join(decls))
        ref = "&a%d;" % depth
        d.expanded = (fan ** depth) * (len(LEAF_MARK) + p.get("pad", 0))
        d.bomb = d.expanded >= 2 * 10 ** 7
    elif kind == "quad":
        doctype = dt('<!ENTITY q "%s%s">' % (LEAF_DECL, "Q" * p["size"]))
        ref = "&q;" * p["refs"]
        d.expanded = p["size"] * p["refs"]
        d.bomb = d.expanded >= 2 * 10 ** 7
    elif kind == "rec":
        k = p.get("cycle", 2)
        doctype = dt("".join('<!ENTITY r%d "%s&r%d;">' % (i, LEAF_DECL, (i + 1) % k)
                             for i in range(k)))
        ref = "&r0;"
        d.bomb = True
    elif kind == "nest":
        if p.get("ns"):
            tag = "c:n"
            ref = '<c:n xmlns:c="urn:c17:nest">' + "<c:n>" * (p["depth"] - 1)
        else:
            tag = "n"
            ref = "<n>" * p["depth"]
        ref += p.get("leaf", "") + ("</%s>" % tag) * p["depth"]
        d.total_depth = sl["depth"] + p["depth"]
        d.must_syntax = d.total_depth > 260
    elif kind == "attrs":
        extra = (sl["eid"], "".join(' x%d="v"' % i for i in range(p["count"])))
    elif kind == "hugetext":
        ref = "t" * p["size"]
    else:
        raise ValueError(kind)

    if kind == "attrs":
        payload = sl["base"]
        neutral_payload = sl["base"]
    else:
        payload = _place(sl["base"], ref, p.get("place", "replace"))
        neutral_payload = sl["base"]
    is_text = sl["t"] == "T"
    d.expect_wf = ((is_text and (kind.startswith("ext-") or kind in ("internal", "xinclude")))
                   or kind == "attrs" or (kind == "hugetext" and is_text)
                   or (kind == "nest" and d.total_depth < 2040))
    decl = _DECL[p.get("decl", "none")]
    d.enc, d.cs = "utf-8", p.get("cs")
    if (p.get("enc") == "utf-16" and kind not in ("hugetext", "attrs")
            and case["transport"] != "wsgi-swa"):
        d.enc, d.cs = "utf-16", None
        decl = '<?xml version="1.0" encoding="UTF-16"?>'
    head = decl + doctype
    body, off = _render(segs, sl["seg"], payload, extra)
    nbody, _ = _render(segs, sl["seg"], neutral_payload, None)
    d.text = head + body
    d.neutral = head + nbody
    d.offset = len(decl) if doctype else len(head) + off
    d.bytes = d.text.encode(d.enc)
    d.neutral_bytes = d.neutral.encode(d.enc)
    return d


# ------------------------------------------------------------------ parameter strategies
def _common():
    return {"place": st.sampled_from(["replace", "middle", "prefix", "suffix"]),
            "decl": st.sampled_from(["none", "utf8", "plain", "standalone"]),
            "cs": st.sampled_from(["utf-8", None]),
            "enc": st.sampled_from(["utf-8", "utf-8", "utf-8", "utf-16"]),
            "root": st.sampled_from(["x", "actual"]),
            # the protocol was built with the documented encoding= option (unrelated to the
            # parser's safety options, which stay at their defaults)
            "penc": st.sampled_from([None, None, None, "utf-8"])}


def _kind_params(kind):
    forms = st.sampled_from(["file://", "file:", "abs"])
    schemes = st.sampled_from(["file", "rel", "http", "ftp"])
    if kind.startswith("ext-"):
        return {"form": forms, "pub": st.booleans(), "nref": st.sampled_from([1, 2])}
    if kind == "pe":
        return {"scheme": schemes, "form": forms, "ref": st.sampled_from([True, True, False])}
    if kind in ("dtd-system", "dtd-public"):
        return {"scheme": schemes, "form": forms, "subset": st.booleans(),
                "ref": st.sampled_from([True, True, False])}
    if kind == "xinclude":
        return {"scheme": schemes, "form": forms, "parse": st.sampled_from(["text", "xml"])}
    if kind == "internal":
        return {"nref": st.sampled_from([1, 2, 3])}
    if kind == "chain":   # minimal example = the classic billion laughs
        return {"fan": st.integers(0, 8).map(lambda x: 10 - x),
                "depth": st.integers(0, 10).map(lambda x: 12 - x),
                "pad": st.sampled_from([0, 100])}
    if kind == "quad":
        return {"size": st.sampled_from([50000, 100000]),
                "refs": st.sampled_from([1000, 2000, 5000])}
    if kind == "rec":
        return {"cycle": st.sampled_from([2, 1, 3])}
    if kind == "nest":
        return {"depth": st.sampled_from([1000, 300, 2000, 500, 270, 1500, 100, 200, 240, 2100,
                                          5000, 10000, 100000]),
                "ns": st.booleans(), "leaf": st.sampled_from(["", "deep"])}
    if kind == "attrs":
        # (lxml's attrib.items() is quadratic: the two large counts cost 3 s / >6 s CPU each)
        return {"count": st.sampled_from([30000, 10000, 100000, 1000, 3000, 300, 5000, 100])}
    if kind == "hugetext":
        return {"size": st.sampled_from([10000000, 100000, 1000000, 10000010, 30000, 2200000,
                                         12000000, 300000, 1000, 5000000])}
    raise ValueError(kind)


def params(kind):
    d = _common()
    d.update(_kind_params(kind))
    return st.fixed_dictionaries(d)


# ------------------------------------------------------------------ child: executes documents
def _flatten(x, out):
    if x is None:
        return
    if isinstance(x, bytes):
        out.append(x.decode("utf-8", "replace"))
    elif isinstance(x, str):
        out.append(x)
    elif isinstance(x, (list, tuple)):
        for y in x:
            _flatten(y, out)
    else:
        out.append(repr(x))


class _Apps(object):
    """one Application (+ WsgiApplication) per (protocol, validator), default constructor
    arguments; user functions record what they receive"""

    def __init__(self):
        self.cache = {}
        self.calls = []

    def get(self, prot, validator, penc=None):
        key = (prot, validator, penc)
        if key in self.cache:
            return self.cache[key]
        from spyne import Application, rpc, Service, Unicode, ComplexModel, Array
        from spyne.model.complex import XmlAttribute
        from spyne.protocol.xml import XmlDocument
        from spyne.protocol.soap import Soap11, Soap12
        from spyne.server.wsgi import WsgiApplication
        tns = tns_of(prot, validator)
        calls = self.calls

        class Obj(ComplexModel):
            __namespace__ = tns
            _type_info = [("s", Unicode), ("a", XmlAttribute(Unicode))]

        def echo(ctx, s):
            calls.append(("echo", s))
            return s

        def echo_obj(ctx, o):
            calls.append(("echo_obj", None if o is None else [o.s, o.a]))
            return o

        def echo_arr(ctx, l):
            l = None if l is None else list(l)
            calls.append(("echo_arr", l))
            return l

        Svc = type("C17Svc", (Service,), {
            "echo": rpc(Unicode, _args=["s"], _returns=Unicode)(echo),
            "echo_obj": rpc(Obj, _args=["o"], _returns=Obj)(echo_obj),
            "echo_arr": rpc(Array(Unicode), _args=["l"], _returns=Array(Unicode))(echo_arr),
        })
        cls = {"xml": XmlDocument, "soap11": Soap11, "soap12": Soap12}[prot]
        kw = {} if penc is None else {"encoding": penc}
        app = Application([Svc], tns=tns, name="C17App_%s_%s_%s" % (prot, validator, penc),
                          in_protocol=cls(validator=validator, **kw), out_protocol=cls())
        self.cache[key] = (app, WsgiApplication(app))
        return self.cache[key]


def _faultcode_from_bytes(body):
    from lxml import etree
    try:
        root = etree.fromstring(body, etree.XMLParser(resolve_entities=False, load_dtd=False,
                                                      no_network=True, huge_tree=True))
    except Exception:
        return None
    for el in root.iter():
        if not isinstance(el.tag, str):
            continue
        ln = etree.QName(el).localname
        if ln == "faultcode":
            return (el.text or "").split(":")[-1]
        if ln == "Code" and el.tag.startswith("{" + NS_ENV["soap12"]):
            vals = [(v.text or "").split(":")[-1] for v in el.iter()
                    if isinstance(v.tag, str) and etree.QName(v).localname == "Value"]
            if vals:
                vals[0] = {"Sender": "Client", "Receiver": "Server"}.get(vals[0], vals[0])
                return ".".join(vals)
    return None


def _swa(envelope, cs):
    """the request as the root part of a multipart/related (SwA) message with one attachment"""
    b = b"C17MIMEBOUNDARY"
    body = (b"--" + b + b"\r\nContent-Type: text/xml; charset=utf-8\r\nContent-ID: <root>\r\n\r\n"
            + envelope + b"\r\n--" + b + b"\r\nContent-Type: application/octet-stream\r\n"
            b"Content-Transfer-Encoding: base64\r\nContent-ID: <att1>\r\n\r\nQUJD\r\n--" + b + b"--\r\n")
    ct = 'multipart/related; boundary="C17MIMEBOUNDARY"; type="text/xml"; start="<root>"'
    if cs:
        ct += "; charset=%s" % cs
    return body, ct


def _execute(apps, case, d):
    """-> dict(escaped, code, normal, args, reply, status)"""
    from .. import drive, findings as F
    app, wapp = apps.get(case["prot"], case["validator"], (case.get("p") or {}).get("penc"))
    del apps.calls[:]
    cs = d.cs
    r = {"escaped": None, "code": None, "normal": False, "status": None, "reply": b""}
    if case["transport"] == "server":
        o = drive.server_call(app, d.bytes, charset=cs)
        if o.escaped is not None:
            et, where = F.exc_origin(o.escaped[0])
            r["escaped"] = (et, where, repr(o.escaped[0])[:300], o.escaped[1])
        else:
            r["reply"] = o.out_bytes or b""
            if o.fault is not None:
                r["code"] = str(getattr(o.fault, "faultcode", "?"))
            else:
                r["normal"] = True
    else:
        if case["transport"] == "wsgi-swa":
            body, ct = _swa(d.bytes, cs)
        else:
            body, ct = d.bytes, ("text/xml; charset=%s" % cs if cs else "text/xml")
        w = drive.wsgi_call(wapp, drive.environ(body=body, content_type=ct))
        if w.escaped is not None:
            et, where = F.exc_origin(w.escaped)
            r["escaped"] = (et, where, repr(w.escaped)[:300], "wsgi")
        else:
            r["reply"] = w.body
            r["status"] = w.status
            code = _faultcode_from_bytes(w.body) if w.body else None
            if code is not None:
                r["code"] = code
            elif (w.status or "").startswith("200"):
                r["normal"] = True
            else:
                r["code"] = "HTTP-%s" % (w.status or "?")[:3]
    args = []
    for name, a in apps.calls:
        _flatten(a, args)
    r["args"] = args
    r["ncalls"] = len(apps.calls)
    return r


def _wf_upto(d):
    """the non-trivial rule (permissive reference parse): the document with the attack
    reference neutralised (DOCTYPE kept) is well-formed, so everything the parser under test
    reads before and around the construct is well-formed and the construct is really met;
    constructs that are well-formed XML by themselves must also parse in full"""
    from lxml import etree

    def P():
        return etree.XMLParser(resolve_entities=False, load_dtd=False, no_network=True,
                               huge_tree=True)
    try:
        etree.fromstring(d.neutral_bytes, P())
    except etree.XMLSyntaxError:
        return False
    if not d.expect_wf:
        return True
    try:
        etree.fromstring(d.bytes, P())
        return True
    except etree.XMLSyntaxError:
        return False


def _head(d):
    t = d.text
    return t if len(t) <= 700 else t[:450] + " ...[%d chars]... " % (len(t) - 650) + t[-200:]


def evaluate(case, d, r, cpu, mem_kb):
    """in-process oracles -> (fails, classes)"""
    fails = []
    sfx = "|swa" if case["transport"] == "wsgi-swa" else ""   # a different parse site
    kind, sl = case["kind"], d.slot
    cfg = "%s/%s/%s" % (case["prot"], case["validator"], case["transport"])
    ctx = "%s %s at %s [%s]\ndocument: %s" % (cfg, kind, sl["where"], sl["pk"], _head(d))
    reply = r["reply"]
    argtxt = "\x00".join(r["args"])
    if r["escaped"] is not None:
        et, where, rep, stage = r["escaped"]
        if et == "MemoryError":
            fails.append(("C17|resource|%s|mem%s" % (kind, sfx),
                          "MemoryError under RLIMIT_AS=%d escaped at %s (%s)\n%s"
                          % (RLIMIT_AS_BYTES, where, stage, ctx)))
        else:
            fails.append(("C17|escaped|%s|%s|%s" % (et, where, family(kind, where)),
                          "%s escaped from %s\n%s" % (rep, stage, ctx)))
        outcome = "escaped:" + et
    elif r["normal"]:
        outcome = "normal"
    else:
        outcome = r["code"] or "?"
        if not (outcome.startswith("Client") or outcome.startswith("HTTP-4")):
            fails.append(("C17|non-client-fault|%s%s" % (kind, sfx),
                          "reply is neither normal nor a Client fault: %s status=%s\n%s\nreply: %r"
                          % (outcome, r["status"], ctx, reply[:400])))
    # canary content
    for tok in d.tokens:
        if tok in argtxt:
            fails.append(("C17|token-leaked-to-function|%s|%s%s" % (kind, sl["pk"], sfx),
                          "user function received %r\n%s" % (tok, ctx)))
        if tok.encode() in reply:
            fails.append(("C17|token-leaked-to-response|%s|%s%s" % (kind, sl["pk"], sfx),
                          "reply contains %r\n%s\nreply: %r" % (tok, ctx, reply[:400])))
    # internal entity in text
    if kind == "internal" and sl["t"] == "T":
        if INT_MARK in argtxt or INT_MARK.encode() in reply:
            fails.append(("C17|internal-entity-expanded|text" + sfx,
                          "internal entity expanded (%s)\n%s\nargs: %r reply: %r"
                          % ("function" if INT_MARK in argtxt else "reply", ctx,
                             r["args"][:3], reply[:300])))
    # bombs
    # (an escaped exception is reported once, under `escaped`)
    if d.bomb and r["escaped"] is None:
        expanded = LEAF_MARK in argtxt or LEAF_MARK.encode() in reply
        if outcome != "Client.XMLSyntaxError" and (
                expanded or not (r["normal"] or outcome.startswith("Client"))):
            fails.append(("C17|bomb-not-rejected|%s%s" % (kind, sfx),
                          "outcome %s, expanded=%s\n%s" % (outcome, expanded, ctx)))
    if d.must_syntax and r["escaped"] is None and outcome not in (
            "Client.XMLSyntaxError", "Client.RequestTooLong"):   # too long: never parsed
        fails.append(("C17|bomb-not-rejected|%s%s" % (kind, sfx),
                      "element depth %d accepted: outcome %s\n%s"
                      % (d.total_depth, outcome, ctx)))
    if b"emory allocation failed" in reply or b"ut of memory" in reply:
        fails.append(("C17|resource|%s|mem%s" % (kind, sfx),
                      "allocation failure under RLIMIT_AS=%d reported in the reply\n%s"
                      % (RLIMIT_AS_BYTES, ctx)))
    if cpu > CPU_LIMIT_S:
        fails.append(("C17|resource|%s|cpu%s" % (kind, sfx),
                      "%.2f s CPU for one document\n%s" % (cpu, ctx)))
    if mem_kb > MEM_LIMIT_KB:
        fails.append(("C17|resource|%s|mem%s" % (kind, sfx),
                      "peak RSS grew by %d MiB for one document\n%s" % (mem_kb // 1024, ctx)))
    classes = ["construct:" + kind, "pos:" + sl["pk"], "cfg:" + cfg,
               "outcome:%s:%s:%s" % (kind, "attr" if sl["t"] == "A" else "text", outcome)]
    if cpu > 0.5:
        classes.append("cost:cpu>0.5s:" + kind)
    if mem_kb > 64 * 1024:
        classes.append("cost:mem>64MiB:" + kind)
    if kind == "internal" and sl["t"] == "A" and INT_MARK in argtxt:
        classes.append("info:internal-entity-substituted-in-attribute-value")
    return fails, classes


def _neighbours():
    from spyne import Application, rpc, Service, Unicode
    from spyne.protocol.xml import XmlDocument
    from spyne.protocol.soap import Soap11, Soap12
    from .. import drive
    for name, cls in (("xml", XmlDocument), ("soap11", Soap11), ("soap12", Soap12)):
        def echo(ctx, s):
            return s
        Svc = type("NbSvc", (Service,), {"echo": rpc(Unicode, _args=["s"], _returns=Unicode)(echo)})
        tns = "urn:c17:neighbour:%s" % name
        app = Application([Svc], tns=tns, name="C17Nb_%s" % name,
                          in_protocol=cls(resolve_entities=True, load_dtd=True, huge_tree=True),
                          out_protocol=cls())
        body = '<echo xmlns="%s"><s>&e;</s></echo>' % tns
        if name != "xml":
            ns = NS_ENV[name]
            body = '<e:Envelope xmlns:e="%s"><e:Body>%s</e:Body></e:Envelope>' % (ns, body)
        doc = '<!DOCTYPE x [<!ENTITY e "neighbour">]>' + body
        drive.server_call(app, doc.encode())


def _child_main(batch_path, out_path):
    import resource
    from .. import env
    env.assert_tree()
    with open(batch_path) as fp:
        batch = json.load(fp)
    cdir, port, start = batch["cdir"], batch["port"], batch["start"]
    cases = batch["cases"]
    resource.setrlimit(resource.RLIMIT_AS, (RLIMIT_AS_BYTES, RLIMIT_AS_BYTES))
    os.chdir(cdir)
    out = open(out_path, "a")

    def emit(tag, obj):
        out.write("%s %s\n" % (tag, json.dumps(obj)))
        out.flush()

    def mark(what):
        try:
            os.close(os.open("/c17mark/%s" % what, os.O_RDONLY))
        except OSError:
            pass

    # CONTROL: one deliberate open and one deliberate connect, which the trace must show
    mark("ctl")
    with open(os.path.join(cdir, "canary_ctl.txt")) as fp:
        ctl = fp.read()
    s = socket.socket()
    s.settimeout(5)
    s.connect(("127.0.0.1", port))
    s.close()
    mark("ctlend")
    emit("C", {"ctl": ctl, "pid": os.getpid()})

    # NEIGHBOURS: other applications of the same process have opted in to the unsafe parser
    # options (a documented constructor choice) and served a request before the
    # default-configured applications under test are even built; the defaults of the latter
    # must not depend on that history
    _neighbours()
    emit("N", {"neighbours": True})

    apps = _Apps()
    # calibrate the services: the unmodified base requests are answered normally
    for prot, validator, transport, req in sorted(set(
            (c["prot"], c["validator"], c["transport"], c["req"]) for c in cases[start:]),
            key=repr):
        segs, slots, _ = template(prot, validator, req)
        base = {"prot": prot, "validator": validator, "transport": transport, "req": req,
                "p": {"cs": "utf-8"}}
        d = Doc()
        d.cs = "utf-8"
        d.bytes = _render(segs, -1, "")[0].encode()
        r = _execute(apps, base, d)
        if not r["normal"] or r["args"] != EXPECT[req] or r["ncalls"] != 1:
            emit("E", {"error": "base request %s is not answered normally: %r"
                                % ((prot, validator, transport, req), r)})
            return 3
    try:
        clear = os.open("/proc/self/clear_refs", os.O_WRONLY)
    except OSError:
        clear = None
    for i in range(start, len(cases)):
        case = cases[i]
        d = build_doc(case, cdir, port)
        nt = _wf_upto(d)
        emit("S", i)
        mark(i)
        if clear is not None:
            try:
                os.pwrite(clear, b"5", 0)      # reset the RSS high-water mark
            except OSError:
                pass
        r0 = resource.getrusage(resource.RUSAGE_SELF)
        signal.setitimer(signal.ITIMER_PROF, HARD_CPU_S)
        r = _execute(apps, case, d)
        signal.setitimer(signal.ITIMER_PROF, 0)
        r1 = resource.getrusage(resource.RUSAGE_SELF)
        mark("end")
        cpu = (r1.ru_utime + r1.ru_stime) - (r0.ru_utime + r0.ru_stime)
        mem = max(0, r1.ru_maxrss - r0.ru_maxrss)
        fails, classes = evaluate(case, d, r, cpu, mem)
        emit("R", {"i": i, "fails": fails, "classes": classes, "nt": bool(nt),
                   "cpu": round(cpu, 4), "mem": mem, "pk": d.slot["pk"]})
        del d, r
    emit("D", {})
    return 0


# ------------------------------------------------------------------ parent: batches under strace
class Listener(object):
    """loop-back TCP listener counting connection attempts"""

    def __init__(self):
        self.sock = socket.socket(socket.AF_INET, socket.SOCK_STREAM)
        self.sock.bind(("127.0.0.1", 0))
        self.sock.listen(64)
        self.port = self.sock.getsockname()[1]
        self.count = 0
        self.seen = []
        self._stop = False
        self.th = threading.Thread(target=self._run, daemon=True)
        self.th.start()

    def _run(self):
        while not self._stop:
            try:
                c, _ = self.sock.accept()
            except OSError:
                return
            if self._stop:
                c.close()
                return
            self.count += 1
            try:
                c.settimeout(0.2)
                data = c.recv(200)
                self.seen.append(data[:80])
                if data:
                    body = NET_TOKEN.encode()
                    c.sendall(b"HTTP/1.0 200 OK\r\nContent-Type: text/plain\r\nContent-Length: "
                              + str(len(body)).encode() + b"\r\n\r\n" + body)
            except Exception:
                pass
            try:
                c.close()
            except Exception:
                pass

    def close(self):
        self._stop = True
        try:
            self.sock.close()
        except Exception:
            pass


_OPEN_RE = re.compile(r'\bopen(?:at)?\(.*?"([^"]*)"')
_MARK_RE = re.compile(r'"/c17mark/(\w+)"')
_CANARY_RE = re.compile(r'canary_(\d+|ctl)\.')


def _parse_trace(path, port):
    """-> (ctl_open, ctl_conn, {canary number: [lines]}, {doc index: [lines]})"""
    ctl_open = ctl_conn = False
    opened, net = {}, {}
    cur = None
    needle = "htons(%d)" % port
    with open(path, errors="replace") as fp:
        for line in fp:
            m = _MARK_RE.search(line)
            if m:
                cur = m.group(1)
                continue
            if "connect(" in line:
                if needle in line and "127.0.0.1" in line:
                    if cur == "ctl":
                        ctl_conn = True
                    else:
                        net.setdefault(cur, []).append(line.strip())
                continue
            m = _OPEN_RE.search(line)
            if m:
                c = _CANARY_RE.search(m.group(1))
                if c:
                    if c.group(1) == "ctl":
                        if cur == "ctl":
                            ctl_open = True
                        else:
                            opened.setdefault("ctl", []).append(line.strip())
                    else:
                        opened.setdefault(int(c.group(1)), []).append(line.strip())
    return ctl_open, ctl_conn, opened, net


_seccomp = [True]


def _spawn(work, k, batch, ncases):
    from .. import env
    bpath = os.path.join(work, "batch_%d.json" % k)
    opath = os.path.join(work, "out_%d.jsonl" % k)
    tpath = os.path.join(work, "trace_%d.txt" % k)
    with open(bpath, "w") as fp:
        json.dump(batch, fp)
    e = dict(os.environ)
    e["PYTHONPATH"] = env.VERIF + (os.pathsep + e["PYTHONPATH"] if e.get("PYTHONPATH") else "")
    e["PYTHONWARNINGS"] = "ignore"
    e["PYTHONDONTWRITEBYTECODE"] = "1"
    e.setdefault("PYTHONHASHSEED", "0")
    timeout = 300 + 1.0 * ncases
    while True:
        cmd = ["strace", "-f", "-qq"] + (["--seccomp-bpf"] if _seccomp[0] else []) + \
              ["-e", "trace=openat,open,connect", "-o", tpath,
               sys.executable, "-m", "pbt.props.c17", "child", bpath, opath]
        for f in (opath, tpath):
            if os.path.exists(f):
                os.unlink(f)
        p = subprocess.Popen(cmd, env=e, cwd=env.VERIF, stdout=subprocess.PIPE,
                             stderr=subprocess.PIPE, start_new_session=True)
        try:
            so, se = p.communicate(timeout=timeout)
        except subprocess.TimeoutExpired:
            try:
                os.killpg(p.pid, signal.SIGKILL)
            except OSError:
                pass
            p.communicate()
            raise RuntimeError("C17 harness: batch subprocess exceeded %d s (not a verdict)"
                               % timeout)
        if _seccomp[0] and not os.path.exists(opath):
            _seccomp[0] = False        # strace without seccomp-bpf support: retry plainly
            continue
        return p.returncode, se.decode("utf-8", "replace"), opath, tpath


def run_batch(cases):
    """cases: list of case dicts with batch-unique canary numbers
    -> list of dict(fails, classes, nt) aligned with cases.  Raises on harness problems."""
    work = tempfile.mkdtemp(prefix="c17w_")
    cdir = tempfile.mkdtemp(prefix="c17c_")
    lis = Listener()
    try:
        by_canary = {}
        for idx, c in enumerate(cases):
            n = c["canary"]
            if n in by_canary:
                raise RuntimeError("C17 harness: duplicate canary number in a batch")
            by_canary[n] = idx
            if c["kind"] in CANARY_KINDS:
                with open(os.path.join(cdir, "canary_%d.txt" % n), "w") as fp:
                    fp.write(txt_token(n))
                with open(os.path.join(cdir, "canary_%d.dtd" % n), "w") as fp:
                    fp.write('<!ENTITY c "%s">' % dtd_token(n))
        with open(os.path.join(cdir, "canary_ctl.txt"), "w") as fp:
            fp.write("CONTROL")
        results = [None] * len(cases)
        start, k, spawns, traced_conns = 0, 0, 0, 0
        while start < len(cases):
            batch = {"cdir": cdir, "port": lis.port, "start": start, "cases": cases}
            rc, err, opath, tpath = _spawn(work, k, batch, len(cases) - start)
            k += 1
            spawns += 1
            started, done, ctl = None, False, None
            if os.path.exists(opath):
                with open(opath) as fp:
                    for line in fp:
                        tag, _, js = line.partition(" ")
                        try:
                            obj = json.loads(js)
                        except ValueError:
                            continue
                        if tag == "S":
                            started = obj
                        elif tag == "R":
                            results[obj["i"]] = obj
                        elif tag == "C":
                            ctl = obj
                        elif tag == "E":
                            raise RuntimeError("C17 harness: " + obj["error"])
                        elif tag == "D":
                            done = True
            if ctl is None or ctl.get("ctl") != "CONTROL":
                raise RuntimeError("C17 harness: subprocess did not get as far as the control "
                                   "(rc=%s)\n%s" % (rc, err[-2000:]))
            ctl_open, ctl_conn, opened, net = _parse_trace(tpath, lis.port)
            if not (ctl_open and ctl_conn):
                raise RuntimeError("C17 harness: strace calibration failed (control open seen=%s, "
                                   "control connect seen=%s): the trace oracle is blind"
                                   % (ctl_open, ctl_conn))
            for n, lines in opened.items():
                idx = by_canary.get(n)
                if idx is None:
                    raise RuntimeError("C17 harness: unattributable canary access %r" % lines[:2])
                results[idx] = results[idx] or {"i": idx, "fails": [], "classes": [], "nt": True}
                results[idx].setdefault("opened", []).extend(lines)
            for cur, lines in net.items():
                traced_conns += len(lines)
                try:
                    idx = int(cur)
                except (TypeError, ValueError):
                    raise RuntimeError("C17 harness: connect outside any document %r" % lines[:2])
                results[idx] = results[idx] or {"i": idx, "fails": [], "classes": [], "nt": True}
                results[idx].setdefault("net", []).extend(lines)
            if done:
                break
            # the subprocess died while a document was in flight
            if started is None or results[started] is not None and "cpu" in results[started]:
                raise RuntimeError("C17 harness: subprocess died outside a document rc=%s\n%s"
                                   % (rc, err[-2000:]))
            c = cases[started]
            sig_no = -rc if rc < 0 else (rc - 128 if rc > 128 else None)
            where = "%s/%s/%s %s position %d" % (c["prot"], c["validator"], c["transport"],
                                                 c["kind"], c["pos"])
            r = results[started] or {"i": started, "fails": [], "classes": [], "nt": True}
            sfx = "|swa" if c["transport"] == "wsgi-swa" else ""
            if sig_no == signal.SIGPROF:
                r["fails"].append(("C17|resource|%s|cpu%s" % (c["kind"], sfx),
                                   "document burnt more than %d s CPU (subprocess killed by "
                                   "SIGPROF): %s" % (HARD_CPU_S, where)))
            elif sig_no in (signal.SIGSEGV, signal.SIGABRT, signal.SIGBUS):
                r["fails"].append(("C17|crash|%s%s" % (c["kind"], sfx),
                                   "subprocess killed by signal %d while processing %s\n%s"
                                   % (sig_no, where, err[-500:])))
            else:
                raise RuntimeError("C17 harness: subprocess ended rc=%s during %s\n%s"
                                   % (rc, where, err[-2000:]))
            r["classes"] = r.get("classes") or ["construct:" + c["kind"], "outcome:%s:killed" % c["kind"]]
            results[started] = r
            start = started + 1
        t_end = time.time() + 10          # the accepting thread may lag behind under load
        while lis.count < spawns + traced_conns and time.time() < t_end:
            time.sleep(0.02)
        if lis.count != spawns + traced_conns:
            raise RuntimeError("C17 harness: listener accepted %d connections but the trace shows "
                               "%d controls + %d document connects: the two observations disagree"
                               % (lis.count, spawns, traced_conns))
        for idx, r in enumerate(results):
            if r is None:
                raise RuntimeError("C17 harness: no result for case %d" % idx)
            c = cases[idx]
            where = "%s/%s/%s %s position %d" % (c["prot"], c["validator"], c["transport"],
                                                 c["kind"], c["pos"])
            r["fails"] = [tuple(f) for f in r["fails"]]
            sfx = "|swa" if c["transport"] == "wsgi-swa" else ""
            if r.get("opened"):
                r["fails"].append(("C17|file-opened|%s%s" % (c["kind"], sfx),
                                   "the server process called open() on the canary file / on the "
                                   "canary URL taken as a path: %s\n%s"
                                   % (r["opened"][0], where)))
            if r.get("net"):
                r["fails"].append(("C17|network-contact|%s%s" % (c["kind"], sfx),
                                   "the server process connected to the listener: %s\n%s"
                                   % (r["net"][0], where)))
        return results
    finally:
        lis.close()
        shutil.rmtree(work, ignore_errors=True)
        shutil.rmtree(cdir, ignore_errors=True)


# ------------------------------------------------------------------ framework entry points
def _report(cases, results, rec):
    allf = []
    for c, r in zip(cases, results):
        nt = None
        if r.get("nt"):
            pk = r.get("pk") or "?"
            nt = "%s/%s/%s/%s/%s" % (c["prot"], c["validator"], c["transport"], c["kind"], pk)
        rec.case(c, failures=r["fails"], nontrivial=nt,
                 classes=list(r.get("classes") or [])
                 + ([] if r.get("nt") else ["trivial:%s:%s" % (c["kind"], r.get("pk"))]))
        allf.extend(r["fails"])
    return allf


def shards(tier):
    if tier == "quick":
        groups, rounds = 1, 3
    else:
        groups, rounds = 5, 16
    out = []
    for prot in PROTS:
        for v in VALIDATORS:
            for t in TRANSPORTS:
                if t == "wsgi-swa" and prot == "xml":
                    continue
                for req in REQS:
                    for g in range(groups):
                        out.append({"kind": "hyp", "prot": prot, "validator": v, "transport": t,
                                    "req": req, "g": g, "rounds": rounds})
    # heavier shards first (soap, arrays) for a balanced pool
    out.sort(key=lambda s: -len(enumerate_slots(s["prot"], s["validator"], s["req"])))
    return out


def run_shard(shard, rec):
    prot, v, t, req = shard["prot"], shard["validator"], shard["transport"], shard["req"]
    slots = enumerate_slots(prot, v, req)
    pending = []
    CH = 24
    for ci in range(0, len(slots), CH):
        chunk = slots[ci:ci + CH]
        strat = st.tuples(*[params(k) for _, k in chunk])

        def collect(ps, chunk=chunk):
            for (pos, kind), p in zip(chunk, ps):
                pending.append({"prot": prot, "validator": v, "transport": t, "req": req,
                                "pos": pos, "kind": kind, "p": p})
            return []
        rec.hyp(strat, collect, shard["rounds"], label="chunk%d" % ci)
    for n, c in enumerate(pending):
        c["canary"] = n
    for b in range(0, len(pending), BATCH):
        cases = pending[b:b + BATCH]
        results = run_batch(cases)
        _report(cases, results, rec)
        rec.count("strace_batches")
        for c, r in zip(cases, results):
            rec.count("cpu_s:" + c["kind"], round(r.get("cpu", 0), 3))


class _NullRec(object):
    tier = "quick"

    def case(self, *a, **k):
        pass


def replay(case):
    """rebuilds canaries and listener, runs the one document under strace"""
    results = run_batch([case])
    return [tuple(f) for f in results[0]["fails"]]


if __name__ == "__main__":
    if len(sys.argv) >= 4 and sys.argv[1] == "child":
        sys.exit(_child_main(sys.argv[2], sys.argv[3]))
    sys.exit(2)
