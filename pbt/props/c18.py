"""C18 — Calling a method through NullServer behaves like calling it over the wire.

case = (universe, signature in a body style NullServer supports {wrapped, out_bare, empty,
        bare with a complex argument passed field-wise}, conformant arguments, scripted outcome
        {return values | raised Fault | generator result | Ignored}, call style
        {positional, keyword, mixed})
Differential: the native result (or raised fault) of NullServer(app).service.m(...) versus the
value the independent reference decoders read from the XmlDocument, Soap11 and JsonDocument
replies to the same call on an identically built application.  Both are compared with the
scripted outcome, and the arguments the function saw must be equal on every path.
"""
import json

from hypothesis import strategies as st
from lxml import etree

from .. import build, drive, spec, values, ref_dict
from .. import findings as F
from . import c01, c09

PROPERTY = "C18"
RULE = ("cases = (generated universe, signature in {wrapped, out_bare, empty, bare with a complex "
        "argument passed field-wise} with 0-4 arguments and 0-3 return values, conformant values, "
        "outcome in {return, raised Fault, generator for an Iterable, Ignored}, call style in "
        "{positional, keyword, mixed}); oracle = differential between NullServer and the "
        "XmlDocument / Soap11 / JsonDocument wire paths (reference decoders), both against the "
        "scripted outcome, plus equality of the arguments received on every path. Non-trivial = "
        "non-wrapped style or >=2 returns or generator or fault or keyword call; distinct = hash "
        "of (style, outcome, call style, value classes)")
ASSUMPTIONS = [
    "NullServer documents that keyword arguments overwrite positional ones: mixed calls pass "
    "disjoint positions",
    "a None keyword argument cannot be told from an omitted one (NullServer skips None kwargs)",
]
MAXTASKSPERCHILD = 4
WIRES = ["xml", "soap11", "json"]


def cases(tier):
    @st.composite
    def one(draw):
        U = draw(spec.universes(max_classes=3, xml=False))
        style = draw(st.sampled_from(["wrapped", "wrapped", "out_bare", "empty", "bare_complex"]))
        cn = [c["name"] for c in U["classes"]]
        if style == "bare_complex" and not cn:
            style = "wrapped"
        if style == "empty":
            m = {"name": "m0", "args": [], "ret": [], "style": "bare"}
        elif style == "bare_complex":
            m = draw(spec.methods(U, name="m0", styles=("out_bare",), xml=False))
            m["style"] = "bare"
            m["args"] = [["a", {"k": "ref", "n": draw(st.sampled_from(cn)),
                                "occ": {"min": 0, "max": 1, "nillable": True}}]]
        else:
            m = draw(spec.methods(U, name="m0", styles=(style,), xml=False))
        vg = values.ValueGen(U, special_floats=False, nil_items=True)
        if style == "bare_complex":
            args = [draw(vg.single(m["args"][0][1]))]
        else:
            args = [draw(vg.value(t)) for _, t in m["args"]]
        outcome = draw(st.sampled_from(["return", "return", "return", "fault", "ignored", "generator"]))
        if outcome == "generator":
            inner = draw(spec.prim_trefs(facets=False))
            m["ret"] = [{"k": "array", "of": inner, "iterable": True,
                         "occ": {"min": 0, "max": 1, "nillable": True}}]
            if m["style"] == "bare" and style == "empty":
                outcome = "return"
                m["ret"] = []
        single = m["style"] != "wrapped"
        rets = [draw(vg.single(t) if single else vg.value(t)) for t in m["ret"]]
        if outcome == "generator" and rets[0] is None:
            rets = [[]]
        fault = None
        if outcome == "fault":
            fault = {"code": draw(st.sampled_from(["Client", "Client.Custom", "Server", "Server.X.Y"])),
                     "msg": draw(st.sampled_from(["boom", "ünï ✓", "x" * 50]))}
        call = draw(st.sampled_from(["pos", "pos", "kw", "mixed"]))
        # an earlier call through the SAME function handle (f = server.service.m; f(..); f(..))
        # with every argument present: nothing of it may survive into the judged call
        prev = None
        if style not in ("bare_complex", "empty") and m["args"] and draw(st.integers(0, 2)) == 0:
            vgf = values.ValueGen(U, special_floats=False, full=True)
            prev = [draw(vgf.value(t)) for _, t in m["args"]]
        return {"U": U, "m": m, "args": args, "rets": rets, "style": style, "outcome": outcome,
                "prev": prev,
                "fault": fault, "call": call, "variant": 0, "validator": None, "prot": "xml"}
    return one()


def _build(case, protocols):
    """application + recorder for one path; the user function follows the scripted outcome"""
    from spyne.model.fault import Fault
    from spyne.model._base import Ignored
    U, m = case["U"], case["m"]
    B = build.Built(U)
    # Iterable return types
    R = build.Recorder()
    mm = dict(m)

    def extra(ms):
        if ms["ret"] and ms["ret"][0].get("iterable"):
            from spyne.model.complex import Iterable
            return {"_returns": Iterable(B.type_of(ms["ret"][0]["of"]))}
        return {}
    svc = build.make_service(B, "Svc", [mm], R, extra=extra)
    inp, outp = protocols(case) if protocols else (None, None)
    app = build.make_app([svc], U["tns"], inp, outp)
    rets = [B.to_native(t, j) for t, j in zip(m["ret"], case["rets"])]
    oc = case["outcome"]
    if oc == "fault":
        f = case["fault"]

        def fn(ctx, a):
            raise Fault(f["code"], f["msg"])
    elif oc == "ignored":
        def fn(ctx, a):
            return Ignored("kept", n=1)
    elif oc == "generator":
        def fn(ctx, a):
            return (x for x in rets[0])
    elif not rets:
        def fn(ctx, a):
            return None
    elif len(rets) == 1:
        def fn(ctx, a):
            return rets[0]
    else:
        def fn(ctx, a):
            return tuple(rets)
    R.script[m["name"]] = fn
    return B, R, app


def _wire_protocols(case):
    if case["prot"] == "json":
        from spyne.protocol.json import JsonDocument
        return JsonDocument(), JsonDocument()
    return c01._protocols(case)


def _check_args(case, B, calls, where, fails):
    m = case["m"]
    if len(calls) != 1:
        fails.append(("C18|invocations!=1|%s" % where, "%s: function ran %d times" % (where, len(calls))))
        return
    got = calls[0][1]
    if len(got) != len(m["args"]):
        fails.append(("C18|argcount|%s|%s" % (where, case["style"]),
                      "%s: function received %d arguments, signature has %d" % (where, len(got), len(m["args"]))))
        return
    for (an, at), g, e in zip(m["args"], got, case["args"]):
        r = values.value_eq(B, at, g, e, path=an)
        if r:
            fails.append(("C18|argument|%s|%s|%s" % (where, case["style"], case["call"] if where == "null" else "-"),
                          "%s (%s call): argument differs: %s" % (where, case["call"], r)))
            return


def run_case(case, rec):
    from spyne.server.null import NullServer
    from spyne.model._base import Ignored
    from spyne.model.fault import Fault
    fails = []
    U, m = case["U"], case["m"]
    oc, style, call = case["outcome"], case["style"], case["call"]
    labs = c01.shape_of(case)
    # ------------------------------------------------------------ NullServer path
    try:
        B, R, app = _build(case, None)
        null = NullServer(app, ostr=False)
    except Exception as e:
        et, where = F.exc_origin(e)
        fails.append(("C18|build-raises|%s|%s" % (et, where), "building raised %r" % (e,)))
        rec.case(case, failures=fails, classes=["build_error"])
        return fails
    if style == "bare_complex":
        # the members of the single complex argument are passed field-wise
        cname = m["args"][0][1]["n"]
        names = [fn for fn, ft in B.all_fields(cname)]
        obj = case["args"][0]
        natives = [B.to_native(ft, obj["f"].get(fn)) for fn, ft in B.all_fields(cname)]
    else:
        names = [an for an, _ in m["args"]]
        natives = [B.to_native(t, j) for (_, t), j in zip(m["args"], case["args"])]
    if "self" in names:
        call = "pos"      # a keyword called 'self' cannot be passed to any Python callable
    if call == "pos":
        a, kw = natives, {}
    elif call == "kw":
        a, kw = [], {n: v for n, v in zip(names, natives) if v is not None}
    else:
        half = len(natives) // 2
        a = natives[:half]
        kw = {n: v for n, v in list(zip(names, natives))[half:] if v is not None}
    null_exc = None
    null_res = None
    handle = getattr(null.service, m["name"])
    if case.get("prev"):
        try:
            handle(*[B.to_native(t, j) for (_, t), j in zip(m["args"], case["prev"])])
        except Exception:
            pass
        R.reset()
    try:
        null_res = handle(*a, **kw)
    except Exception as e:
        null_exc = e
    _check_args(case, B, R.calls, "null", fails)
    expected = case["rets"]
    if oc == "fault":
        if not isinstance(null_exc, Fault) or null_exc.faultcode != case["fault"]["code"] \
                or null_exc.faultstring != case["fault"]["msg"]:
            fails.append(("C18|null-fault-differs", "NullServer raised %r for the scripted fault %r"
                          % (null_exc, case["fault"])))
    elif null_exc is not None:
        et, where = F.exc_origin(null_exc)
        fails.append(("C18|null-raises|%s|%s|%s" % (et, where, style),
                      "NullServer call (%s, %s) raised %r" % (style, call, null_exc)))
    elif oc == "ignored":
        if not (isinstance(null_res, Ignored) and null_res == Ignored("kept", n=1)):
            fails.append(("C18|ignored-not-delivered|%s" % style,
                          "NullServer returned %r for an Ignored return value" % (null_res,)))
    else:
        got = null_res
        if oc == "generator":
            try:
                got = [list(got)] if got is not None else [None]
            except TypeError:
                got = [got]
        elif len(m["ret"]) == 0:
            got = []
            if null_res is not None:
                fails.append(("C18|null-result|%s|no-return" % style,
                              "NullServer returned %r for a method without return value" % (null_res,)))
        elif len(m["ret"]) == 1:
            got = [null_res]
        else:
            got = list(null_res) if isinstance(null_res, (list, tuple)) else [null_res]
        for i, (rt, g, e) in enumerate(zip(m["ret"], got, expected)):
            r = values.value_eq(B, rt, g, e, path="ret%d" % i,
                                ident=values.Ident(empty_seq_is_none=False, empty_bytes_is_none=False))
            if r:
                fails.append(("C18|null-result|%s|%s" % (style, c01._diff_class(rt, r)),
                              "NullServer result differs from what the function returned: %s" % r))
                break
        if len(got) != len(m["ret"]):
            fails.append(("C18|null-result|%s|arity" % style, "NullServer returned %d values, "
                          "function returned %d" % (len(got), len(m["ret"]))))
    # ------------------------------------------------------------ wire paths
    for prot in WIRES:
        wcase = dict(case, prot=prot)
        try:
            if prot == "json":
                Bw, Rw, appw = _build(wcase, _wire_protocols)
                codec = ref_dict.Codec(U, ref_dict.Cfg("json"))
                if style == "bare_complex":
                    obj = case["args"][0]
                    body = codec.encode_obj(m["args"][0][1]["n"], obj["f"])
                    doc = {m["name"]: body}
                else:
                    doc = codec.request(m, case["args"])
                req = json.dumps(doc).encode("utf8")
                out = drive.server_call(appw, req)
                E = None
            else:
                E = _XmlEnv(wcase)
                Bw, Rw, appw = E.B, E.rec, E.app
                req = etree.tostring(E.wrap(E.request_element()))
                out = drive.server_call(appw, req)
        except Exception as e:
            et, where = F.exc_origin(e)
            fails.append(("C18|wire-build-raises|%s|%s|%s" % (prot, et, where), repr(e)))
            continue
        if out.escaped is not None:
            et, where = F.exc_origin(out.escaped[0])
            fails.append(("C18|wire-escaped|%s|%s|%s|%s" % (prot, et, where, oc),
                          "%s: %r escaped from %s (outcome %s, style %s)" % (prot, out.escaped[0], out.escaped[1], oc, style)))
            continue
        _check_args(case, Bw, Rw.calls, prot, fails)
        if oc == "fault":
            try:
                code, msg, _d = c09.decode_fault(prot, out.out_bytes)
                if code != case["fault"]["code"] or msg != case["fault"]["msg"]:
                    fails.append(("C18|wire-fault-differs|%s" % prot,
                                  "%s: fault (%r, %r) differs from the scripted %r" % (prot, code, msg, case["fault"])))
            except Exception as e:
                fails.append(("C18|wire-fault-undecodable|%s" % prot, "%s: %r: %r" % (prot, e, out.out_bytes[:300])))
            continue
        if out.fault is not None:
            fails.append(("C18|wire-rejects|%s|%s|%s" % (prot, style, getattr(out.fault, "faultcode", "?")),
                          "%s: conformant call answered with %r\nrequest: %s" % (prot, out.fault, req[:500])))
            continue
        try:
            if prot == "json":
                rdoc = json.loads(out.out_bytes.decode("utf8")) if out.out_bytes.strip() else None
                if oc == "ignored":
                    wire = "empty" if rdoc in (None, {}, [], "") or (
                        isinstance(rdoc, dict) and all(v is None for v in rdoc.values())) else rdoc
                elif m["style"] != "wrapped":
                    wire = [codec.decode_slot(m["ret"][0], rdoc)] if m["ret"] else []
                else:
                    wire = codec.response(m, rdoc)
            else:
                doc = etree.fromstring(out.out_bytes) if out.out_bytes.strip() else None
                el = E.unwrap(doc)[0] if doc is not None else None
                if oc == "ignored":
                    wire = "empty" if el is None or (len(el) == 0 and not (el.text or "").strip()) \
                        or all(c.get(c01.ref_xml.NIL) == "true" for c in el) else etree.tostring(el)
                else:
                    wire = E.decode_response(el)
        except Exception as e:
            fails.append(("C18|wire-undecodable|%s|%s|%s" % (prot, style, type(e).__name__),
                          "%s: reference decoder cannot read the reply: %r\n%s" % (prot, e, out.out_bytes[:500])))
            continue
        if oc == "ignored":
            if wire != "empty":
                fails.append(("C18|ignored-sent-over-wire|%s" % prot,
                              "%s: an Ignored return value was sent as %r" % (prot, wire)))
            continue
        for i, (rt, g, e) in enumerate(zip(m["ret"], wire, expected)):
            r = values.value_eq(Bw, rt, g, e, path="ret%d" % i,
                                ident=values.Ident(empty_wrapped_is_none=(oc == "generator")))
            if r:
                fails.append(("C18|wire-result|%s|%s|%s" % (prot, style, c01._diff_class(rt, r)),
                              "%s: the wire reply differs from what the function returned (and from "
                              "the NullServer result): %s\nreply: %s" % (prot, r, out.out_bytes[:500])))
                break
    nt = None
    if style != "wrapped" or len(m["ret"]) >= 2 or oc != "return" or call != "pos":
        nt = {"style": style, "oc": oc, "call": call, "nret": len(m["ret"]), "nargs": len(m["args"]),
              "labs": sorted(labs)[:12]}
    rec.case(case, failures=fails, nontrivial=nt,
             classes=["style:" + style, "outcome:" + oc, "call:" + call, "nret:%d" % len(m["ret"])])
    return fails


class _XmlEnv(c01.Env):
    """c01.Env whose user function follows the C18 outcome script"""

    def __init__(self, case):
        self.case = case
        U, m = case["U"], case["m"]
        self.B, self.rec, self.app = _build(case, _wire_protocols)
        xs = self.app.interface.docs.xml_schema
        xs.build_validation_schema()
        self.schema = xs.validation_schema
        self.model = c01.ref_xml.SchemaModel(xs.schema_dict.values())
        self.codec = c01.ref_xml.Codec(self.model, U)


def shards(tier):
    n = 300 if tier == "quick" else 7000
    return [{"kind": "hyp", "i": i, "n": n} for i in range(16)]


def run_shard(shard, rec):
    rec.hyp(cases(rec.tier), lambda case: run_case(case, rec), shard["n"])


class _NullRec(object):
    tier = "quick"

    def case(self, *a, **k):
        pass

    def count(self, *a, **k):
        pass


def replay(case):
    return run_case(case, _NullRec())
