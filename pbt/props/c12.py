"""C12 — Concurrent requests do not interfere; the lazy WSDL is built once and served whole.

case = {"mix": <id>, "schedule": {...}, "k": n}           (pure data, see pbt/sched.py)

The requests of a *mix* are issued by real threads, one per request, against ONE freshly
built WsgiApplication.  pbt.sched makes the threads cooperative (sys.settrace): exactly
one runs at a time and the baton changes hands only where the schedule says so, so that a
run is a function of the schedule.  Oracle: every caller gets, byte for byte, the
(status, headers, body) its request gets when it is processed alone on an identically
built application; Wsdl11.build_interface_document runs at most once; all ?wsdl callers
get the sequential document; nothing escapes; no deadlock.

Signatures
  C12|wsdl-built-twice, C12|wsdl-differs-from-sequential, C12|wsdl-callers-disagree
  C12|response-differs|<app kind>:<class of the deviating request>|status/body/headers
  C12|escaped|<ExcType>|<file:function>|<app kind>:<request class>
  C12|deadlock|<app kind>                   (all workers blocked on scheduler-aware locks)
  C12|stress|...                            (un-scheduled part; not replayable exactly)
Runs in which a worker blocks in something the scheduler does not see (2 s watchdog) are
counted as `inconclusive`, never reported.
"""
import sys
import threading

from hypothesis import strategies as st

from .. import drive, env, sched
from .. import findings as F

PROPERTY = "C12"
RULE = ("case = (mix of 2-4 requests against ONE fresh WsgiApplication, schedule). Requests run on "
        "real threads made cooperative by a sys.settrace hook (pbt/sched.py): a yield point is "
        "every line event inside handle_wsdl_request, wsdl11.py, xml_schema/_base.py, "
        "get_cls_attrs, sort_fields, memoize*.__call__, cdict.__getitem__, __validate_lxml "
        "(a line counts only the first 2 times one activation of the function reaches it) and "
        "every call event elsewhere under spyne/protocol, spyne/server, spyne/interface, "
        "application.py; spyne's Lock/RLock instances are replaced by scheduler-aware locks. "
        "Schedules: all orders without pre-emption; for every 2-thread mix (quick: 17 of 20) ALL "
        "schedules with exactly one pre-emption (stride 1: every yield point of the first "
        "thread, both start orders); a grid of two-pre-emption schedules (8x8 quick, 48x48 thorough per start "
        "order); Hypothesis-generated pre-emption lists (<=4) and PCT priority schedules (<=3 "
        "change points) for all mixes incl. the 3-4-thread ones; plus un-scheduled stress "
        "(16-32 free-running threads, switch interval 1us). Oracle: (status, headers, body) "
        "byte-identical to the request processed alone on an identically built application; "
        "build_interface_document at most once; all ?wsdl callers get the sequential bytes; "
        "nothing escapes; no deadlock. Non-trivial = >=1 pre-emption landed on a line inside "
        "a shared-state function while another worker was runnable; distinct = (mix, "
        "pre-emption site functions, direction); evaluations = schedules run")
ASSUMPTIONS = [
    "interleavings are explored at Python line / call granularity; switches inside C "
    "extensions (lxml validating with the GIL released) are only touched by the stress part",
    "line events that revisit a line for the 3rd+ time within one function activation (loop and "
    "comprehension iterations) are not yield points",
    "the user functions of the test service are thread-safe (they touch only their arguments)",
    "requests fixed per mix (hand-written universe: nested objects, arrays, facets, protocol "
    "attributes); 2 ?wsdl callers use the same URL",
    "a run whose worker does not reach a yield point for 2 s is counted inconclusive, not judged",
]
EXHAUSTIVE = {
    "quick": ["all single-pre-emption schedules (stride 1 over the yield points defined in RULE) "
              "of every 2-thread mix, both start orders",
              "all pre-emption-free orders of every mix"],
    "thorough": ["all single-pre-emption schedules (stride 1 over the yield points defined in "
                 "RULE) of every 2-thread mix, both start orders",
                 "all pre-emption-free orders of every mix"],
}
MAXTASKSPERCHILD = 6      # spyne's module-level cdicts keep every generated class alive

# ---------------------------------------------------------------------------------------
# yield points
LINE_FILES = ("interface/wsdl/wsdl11.py", "interface/xml_schema/_base.py")
LINE_FUNCS = (("server/wsgi.py", "handle_wsdl_request"),
              ("protocol/_base.py", "get_cls_attrs"),
              ("protocol/_base.py", "sort_fields"),
              ("util/memo.py", "__call__"),
              ("util/cdict.py", "__getitem__"),
              ("protocol/xml.py", "__validate_lxml"))
CALL_PREFIXES = ("protocol/", "server/", "application.py", "interface/")

_state = {}


def _ymap():
    ym = _state.get("ymap")
    if ym is None:
        import os
        ym = _state["ymap"] = sched.YieldMap(os.path.join(env.REPO, "spyne"), LINE_FILES,
                                             LINE_FUNCS, CALL_PREFIXES)
    return ym


# ---------------------------------------------------------------------------------------
# the applications under test (fixed, hand-written: mix ids must be stable)
def _services(tns):
    """fresh classes, fresh service class (rpc() pops its kwargs: new functions each time)"""
    from spyne import rpc, Service, Fault
    from spyne.model.complex import ComplexModel, ComplexModelMeta, Array
    from spyne.model.primitive import Unicode, Integer, UnsignedInteger, Decimal, Boolean, Date
    from spyne.protocol.xml import XmlDocument
    from spyne.protocol.json import JsonDocument

    def cm(name, fields):
        return ComplexModelMeta(name, (ComplexModel,),
                                {"__namespace__": tns, "_type_info": fields})

    # Restricted simple types: one per primitive base class.  The schema builder orders
    # classes by repr(), which is the same for every customisation of one primitive, and
    # falls back to set order (addresses) on ties: two restricted Unicode types would make
    # the WSDL of two identically built applications differ in element order.
    ShortStr = Unicode(max_len=8, type_name="ShortStr")
    NonNeg = Integer(ge=0, type_name="NonNeg")
    Small = UnsignedInteger(le=5, type_name="Small")
    Address = cm("Address", [("street", Unicode), ("city", Unicode), ("zip", NonNeg)])
    # `pin` is readable but never written by the XML and JSON families (protocol attributes
    # are merged into the per-protocol attribute cache by get_cls_attrs)
    Pin = Unicode(pa={XmlDocument: dict(exc=True), JsonDocument: dict(exc=True)})
    Person = cm("Person", [("name", Unicode), ("born", Date),
                           ("address", Address), ("tags", Array(Unicode)),
                           ("pin", Pin), ("vip", Boolean)])
    Item = cm("Item", [("sku", Unicode), ("qty", NonNeg), ("price", Decimal)])
    Order = cm("Order", [("id", Integer), ("items", Item.customize(max_occurs="unbounded")),
                         ("ship_to", Address)])
    Summary = cm("Summary", [("order_id", Integer), ("lines", Integer), ("total", Decimal),
                             ("city", Unicode)])

    def echo_person(ctx, person, note):
        if person is not None:
            person.tags = list(person.tags or []) + [note]
        return person

    def order_total(ctx, order):
        items = order.items or []
        return Summary(order_id=order.id, lines=len(items),
                       total=sum((i.price * i.qty for i in items), 0),
                       city=None if order.ship_to is None else order.ship_to.city)

    def greet(ctx, name, times):
        return ["hello %s #%d" % (name, i) for i in range(times or 0)]

    def boom(ctx, code):
        if code % 2:
            raise Fault("Client.Boom", "boom number %d" % code)
        raise ValueError("bad luck %d" % code)

    ns = {
        "echo_person": rpc(Person, Unicode, _returns=Person)(echo_person),
        "order_total": rpc(Order, _returns=Summary)(order_total),
        "greet": rpc(ShortStr, Small, _returns=Array(Unicode))(greet),
        "boom": rpc(Integer, _returns=Unicode)(boom),
    }
    return [type("Svc", (Service,), ns)]


def _base_kind(kind):
    """'soapl' is the soap application with a listener on the documented wsdl_document_built
    event that edits the document tree before it is serialized"""
    return "soap" if kind == "soapl" else kind


def _protocols(kind):
    kind = _base_kind(kind)
    from spyne.protocol.xml import XmlDocument
    from spyne.protocol.soap import Soap11
    from spyne.protocol.json import JsonDocument
    from spyne.protocol.http import HttpRpc
    if kind == "xml":
        return XmlDocument(validator="lxml"), XmlDocument()
    if kind == "soap":
        return Soap11(validator="lxml"), Soap11()
    if kind == "json":
        return JsonDocument(validator="soft"), JsonDocument()
    if kind == "http":
        return HttpRpc(validator="soft"), JsonDocument()
    raise ValueError(kind)


def tns_of(kind):
    return "urn:c12:%s" % kind


def build_app(kind):
    from spyne import Application
    from spyne.server.wsgi import WsgiApplication
    tns = tns_of(kind)
    inp, outp = _protocols(kind)
    app = Application(_services(tns), tns=tns, name="C12App", in_protocol=inp,
                      out_protocol=outp)
    wsgi = WsgiApplication(app)
    if kind == "soapl":
        def _edit(wsdl):
            from lxml import etree
            doc = etree.SubElement(wsdl.root_elt, "{http://schemas.xmlsoap.org/wsdl/}documentation")
            doc.text = "edited by a wsdl_document_built listener"
            wsdl.root_elt.insert(0, doc)
        wsgi.doc.wsdl11.event_manager.add_listener("wsdl_document_built", _edit)
        # ... and the documented stylesheet reference (a processing instruction in front of
        # the root element)
        wsgi.doc.wsdl11.xsl_href = "/static/wsdl.xsl"
    return wsgi


# ---------------------------------------------------------------------------------------
# requests: id -> per application kind a function returning environ keyword arguments
SOAP_ENV = "http://schemas.xmlsoap.org/soap/envelope/"

_XML_BODIES = {
    "echo1": ('<t:echo_person xmlns:t="%(tns)s"><t:person><t:name>Ada</t:name>'
              '<t:born>1815-12-10</t:born><t:address><t:street>12 St James Sq</t:street>'
              '<t:city>London</t:city><t:zip>12345</t:zip></t:address>'
              '<t:tags><t:string>math</t:string><t:string>engine</t:string></t:tags>'
              '<t:pin>0042</t:pin><t:vip>true</t:vip></t:person><t:note>first</t:note></t:echo_person>'),
    "echo2": ('<t:echo_person xmlns:t="%(tns)s"><t:person><t:name>Grace</t:name>'
              '<t:born>1906-12-09</t:born><t:address><t:street>1 Navy Yard</t:street>'
              '<t:city>Arlington</t:city><t:zip>22201</t:zip></t:address>'
              '<t:tags><t:string>cobol</t:string></t:tags>'
              '<t:pin>9911</t:pin><t:vip>false</t:vip></t:person><t:note>second</t:note></t:echo_person>'),
    "order1": ('<t:order_total xmlns:t="%(tns)s"><t:order><t:id>77</t:id>'
               '<t:items><t:sku>AB123</t:sku><t:qty>2</t:qty><t:price>9.95</t:price></t:items>'
               '<t:items><t:sku>ZZ001</t:sku><t:qty>1</t:qty><t:price>100</t:price></t:items>'
               '<t:ship_to><t:street>5 Rue X</t:street><t:city>Paris</t:city>'
               '<t:zip>75001</t:zip></t:ship_to></t:order></t:order_total>'),
    "greet1": ('<t:greet xmlns:t="%(tns)s"><t:name>Bob</t:name><t:times>3</t:times></t:greet>'),
    # schema-invalid: two different reasons, so that a swapped error text shows
    "bad_int": ('<t:greet xmlns:t="%(tns)s"><t:name>Eve</t:name><t:times>many</t:times>'
                '</t:greet>'),
    "bad_len": ('<t:greet xmlns:t="%(tns)s"><t:name>Bartholomew</t:name><t:times>1</t:times>'
                '</t:greet>'),
    "boom1": ('<t:boom xmlns:t="%(tns)s"><t:code>7</t:code></t:boom>'),
    "boom2": ('<t:boom xmlns:t="%(tns)s"><t:code>4</t:code></t:boom>'),
}

_JSON_BODIES = {
    "echo1": ('{"echo_person": {"person": {"name": "Ada", "born": "1815-12-10", "address": '
              '{"street": "12 St James Sq", "city": "London", "zip": 12345}, '
              '"tags": ["math", "engine"], "pin": "0042", "vip": true}, "note": "first"}}'),
    "echo2": ('{"echo_person": {"person": {"name": "Grace", "born": "1906-12-09", "address": '
              '{"street": "1 Navy Yard", "city": "Arlington", "zip": 22201}, '
              '"tags": ["cobol"], "pin": "9911", "vip": false}, "note": "second"}}'),
    "order1": ('{"order_total": {"order": {"id": 77, "items": [{"sku": "AB123", "qty": 2, '
               '"price": "9.95"}, {"sku": "ZZ001", "qty": 1, "price": "100"}], "ship_to": '
               '{"street": "5 Rue X", "city": "Paris", "zip": 75001}}}}'),
    "greet1": '{"greet": {"name": "Bob", "times": 3}}',
    "bad_int": '{"greet": {"name": "Eve", "times": 99}}',
    "bad_len": '{"greet": {"name": "Bartholomew", "times": 1}}',
    "boom1": '{"boom": {"code": 7}}',
    "boom2": '{"boom": {"code": 4}}',
}

_HTTP_QUERIES = {
    "echo1": ("echo_person", "person.name=Ada&person.born=1815-12-10&person.address.street=12+St"
              "&person.address.city=London&person.address.zip=12345&person.tags=math"
              "&person.tags=engine&person.pin=0042&person.vip=true&note=first"),
    "echo2": ("echo_person", "person.name=Grace&person.born=1906-12-09&person.address.street=1+Navy"
              "&person.address.city=Arlington&person.address.zip=22201&person.tags=cobol"
              "&person.pin=9911&person.vip=false&note=second"),
    "order1": ("order_total", "order.id=77&order.items[0].sku=AB123&order.items[0].qty=2"
               "&order.items[0].price=9.95&order.items[1].sku=ZZ001&order.items[1].qty=1"
               "&order.items[1].price=100&order.ship_to.city=Paris&order.ship_to.zip=75001"),
    "greet1": ("greet", "name=Bob&times=3"),
    "bad_int": ("greet", "name=Eve&times=99"),
    "bad_len": ("greet", "name=Bartholomew&times=1"),
    "boom1": ("boom", "code=7"),
    "boom2": ("boom", "code=4"),
}


def make_environ(kind, rid):
    """fresh environ (fresh wsgi.input) for request `rid` against application kind"""
    tns = tns_of(kind)
    kind = _base_kind(kind)
    if rid == "wsdl":
        return drive.environ(method="GET", path="/svc", query="wsdl", content_type=None,
                             content_length=None)
    if kind in ("xml", "soap"):
        body = _XML_BODIES[rid] % {"tns": tns}
        if kind == "soap":
            body = ('<e:Envelope xmlns:e="%s"><e:Body>%s</e:Body></e:Envelope>'
                    % (SOAP_ENV, body))
        return drive.environ(method="POST", path="/svc", body=body.encode("utf8"),
                             content_type="text/xml; charset=utf-8")
    if kind == "json":
        return drive.environ(method="POST", path="/svc", body=_JSON_BODIES[rid].encode("utf8"),
                             content_type="application/json; charset=utf-8")
    if kind == "http":
        meth, q = _HTTP_QUERIES[rid]
        return drive.environ(method="GET", path="/svc/" + meth, query=q, content_type=None,
                             content_length=None)
    raise ValueError(kind)


# ---------------------------------------------------------------------------------------
# mixes: id -> (application kind, [request id per thread])
MIXES2 = {
    "soap:wsdl+wsdl": ("soap", ["wsdl", "wsdl"]),
    "soap:wsdl+rpc": ("soap", ["wsdl", "echo1"]),
    "soap:rpc+rpc-distinct": ("soap", ["echo1", "order1"]),
    "soap:rpc+invalid": ("soap", ["greet1", "bad_len"]),
    "soap:invalid+invalid": ("soap", ["bad_int", "bad_len"]),
    "soap:same-method": ("soap", ["echo1", "echo2"]),
    "soapl:wsdl+wsdl": ("soapl", ["wsdl", "wsdl"]),
    "xml:wsdl+invalid": ("xml", ["wsdl", "bad_int"]),
    "xml:rpc+rpc-distinct": ("xml", ["echo1", "order1"]),
    "xml:rpc+invalid": ("xml", ["greet1", "bad_int"]),
    "xml:invalid+invalid": ("xml", ["bad_int", "bad_len"]),
    "xml:rpc+raise": ("xml", ["echo1", "boom1"]),
    "xml:raise+raise": ("xml", ["boom1", "boom2"]),
    "xml:same-method": ("xml", ["echo1", "echo2"]),
    "json:rpc+rpc-distinct": ("json", ["echo1", "order1"]),
    "json:rpc+invalid": ("json", ["greet1", "bad_int"]),
    "json:same-method": ("json", ["echo1", "echo2"]),
    "json:rpc+raise": ("json", ["order1", "boom2"]),
    "http:rpc+rpc-distinct": ("http", ["echo1", "order1"]),
    "http:rpc+invalid": ("http", ["greet1", "bad_len"]),
    "http:same-method": ("http", ["echo1", "echo2"]),
}
MIXES_N = {
    "soap:wsdl+wsdl+wsdl": ("soap", ["wsdl", "wsdl", "wsdl"]),
    "soap:wsdl+wsdl+rpc+invalid": ("soap", ["wsdl", "wsdl", "echo1", "bad_int"]),
    "xml:rpc+rpc+invalid+raise": ("xml", ["echo1", "order1", "bad_len", "boom1"]),
    "xml:invalid+invalid+rpc": ("xml", ["bad_int", "bad_len", "greet1"]),
    "xml:same-method-x3": ("xml", ["echo1", "echo2", "echo1"]),
    "json:rpc+rpc+invalid+raise": ("json", ["echo1", "order1", "bad_int", "boom1"]),
    "http:rpc+rpc+invalid": ("http", ["echo1", "order1", "bad_int"]),
}
MIXES = dict(MIXES2)
MIXES.update(MIXES_N)
# Un-scheduled stress: no schema-invalid requests.  The scheduled part decides the one piece
# of per-request state behind them (the validator's error log) deterministically; under free
# running threads a defect there shows in most but not all runs, and a signature that comes
# and goes is worse than none.
STRESS = {
    "stress:soap": ("soap", ["wsdl", "echo1", "wsdl", "order1", "boom1", "greet1", "echo2"]),
    "stress:xml": ("xml", ["echo1", "order1", "boom1", "greet1", "echo2", "boom2", "wsdl"]),
    "stress:json": ("json", ["echo1", "order1", "bad_int", "boom1", "greet1", "echo2"]),
    "stress:http": ("http", ["echo1", "order1", "bad_len", "boom2", "greet1", "echo2"]),
}
MIXES.update(STRESS)
# the quick tier leaves out three 2-thread mixes whose interactions the others contain
QUICK_SKIP = ("soap:rpc+rpc-distinct", "json:rpc+rpc-distinct", "http:rpc+rpc-distinct")


def mixes2(tier):
    return sorted(m for m in MIXES2 if tier != "quick" or m not in QUICK_SKIP)


# ---------------------------------------------------------------------------------------
# one run
def reset_memo():
    """process-global memoize tables: both the oracle run and the scheduled run start empty"""
    from spyne.util import memo
    for m in list(memo.memoize.registry):
        if isinstance(getattr(m, "memo", None), dict):
            m.reset()


class Run(object):
    """what one scheduled execution of a mix produced"""
    sched = None
    results = ()
    builds = 0
    wsdl_lock = None


_LOCK_TYPES = (type(threading.Lock()), type(threading.RLock()))


def _module_locks():
    """(module dict, name) of every module-level Lock/RLock in the spyne package (import-time
    objects: scanned once per process)"""
    found = _state.get("module_locks")
    if found is None:
        found = _state["module_locks"] = []
        for mname, mod in sorted(sys.modules.items()):
            if mod is not None and (mname == "spyne" or mname.startswith("spyne.")):
                for name, val in list(vars(mod).items()):
                    if isinstance(val, _LOCK_TYPES):
                        found.append((mod, name))
    return found


def _lock_holders(wsgi):
    """the shared objects of one application whose attributes may be locks"""
    app = wsgi.app
    objs = [wsgi, app, app.in_protocol, app.out_protocol, app.interface, wsgi.doc,
            getattr(wsgi.doc, "wsdl11", None), getattr(app.interface, "docs", None),
            getattr(getattr(app.interface, "docs", None), "xml_schema", None),
            getattr(wsgi, "event_manager", None), getattr(app, "event_manager", None)]
    objs.extend(app.services)
    return [o for o in objs if o is not None and hasattr(o, "__dict__")]


def _instrument(wsgi, S):
    """every threading.Lock/RLock held by the shared spyne objects (application, transport,
    protocols, interface documents, memoizers, spyne module globals) is replaced *on the
    instance* by a scheduler-aware lock; -> (the WSDL build lock, undo())"""
    from spyne.util import memo
    saved = []

    def swap(obj, name, label):
        val = getattr(obj, name)
        reent = isinstance(val, _LOCK_TYPES[1])
        lk = sched.SchedLock(S, label, reentrant=reent)
        saved.append((obj, name, val))
        setattr(obj, name, lk)
        return lk

    wsdl_lock = None
    for obj in _lock_holders(wsgi):
        for name, val in list(vars(obj).items()):
            if isinstance(val, _LOCK_TYPES):
                lk = swap(obj, name, "%s.%s" % (type(obj).__name__, name))
                if obj is wsgi and name == "_mtx_build_interface_document":
                    wsdl_lock = lk
    for i, m in enumerate(list(memo.memoize.registry)):
        if isinstance(getattr(m, "lock", None), _LOCK_TYPES):
            swap(m, "lock", "memoize[%s].lock" % getattr(m.func, "__name__", i))
    for mod, name in _module_locks():
        if isinstance(getattr(mod, name, None), _LOCK_TYPES):
            swap(mod, name, "%s.%s" % (mod.__name__, name))

    def undo():
        for obj, name, val in saved:
            setattr(obj, name, val)
    return wsdl_lock, undo


def count_builds(wsgi, counter):
    w11 = wsgi.doc.wsdl11
    orig = w11.build_interface_document

    def build_interface_document(*a, **kw):
        counter.append(1)
        return orig(*a, **kw)
    w11.build_interface_document = build_interface_document


def run_mix(mix_id, schedule, record=False, watchdog=2.0):
    kind, rids = MIXES[mix_id]
    reset_memo()
    wsgi = build_app(kind)
    S = sched.Scheduler(_ymap(), schedule, watchdog=watchdog, record=record)
    counter = []
    count_builds(wsgi, counter)
    for rid in rids:
        e = make_environ(kind, rid)
        S.spawn(lambda e=e: drive.wsgi_call(wsgi, e))
    lk, undo = _instrument(wsgi, S)
    try:
        S.run()
    finally:
        undo()
    r = Run()
    r.sched = S
    r.results = [w.result for w in S.workers]
    r.builds = len(counter)
    r.wsdl_lock = lk
    return r


def triple(res):
    return (res.status, res.headers, res.body)


def alone(kind, rid):
    """the request processed alone on a fresh, identically built application"""
    reset_memo()
    wsgi = build_app(kind)
    counter = []
    count_builds(wsgi, counter)
    res = drive.wsgi_call(wsgi, make_environ(kind, rid))
    return res


_expected = {}


def expected(kind, rid):
    """(status, headers, body) of the request processed alone; computed twice per process
    (the first computation also warms process-global import-time state)"""
    key = (kind, rid)
    if key not in _expected:
        a = alone(kind, rid)
        b = alone(kind, rid)
        if a.escaped is not None or b.escaped is not None:
            raise RuntimeError("oracle: request %s/%s alone escaped: %r" % (kind, rid, a.escaped))
        if triple(a) != triple(b):
            raise RuntimeError("oracle unstable for %s/%s:\n%r\n%r" % (kind, rid, triple(a),
                                                                      triple(b)))
        _expected[key] = triple(a)
    return _expected[key]


# ---------------------------------------------------------------------------------------
# oracle
def _first_diff(a, b):
    n = min(len(a), len(b))
    for i in range(n):
        if a[i] != b[i]:
            return i
    return n


def _show(b, at, span=160):
    lo = max(0, at - 60)
    return repr(b[lo:at + span])


def describe(case, S):
    pre = ["step %d: worker %d -> worker %d at %s (%s)"
           % (st_, a, b, site, "line" if kind == sched.LINE else "call")
           for st_, a, b, site, kind in S.preemptions]
    return "schedule %r; pre-emptions: %s; steps per worker %r" % (
        case.get("schedule"), "; ".join(pre) or "none", [w.steps for w in S.workers])


REQ_CLASS = {"wsdl": "wsdl", "echo1": "rpc", "echo2": "rpc", "order1": "rpc", "greet1": "rpc",
             "bad_int": "invalid", "bad_len": "invalid", "boom1": "raise", "boom2": "raise"}


def victim(kind, rid):
    """the <mix id> component of a signature: application kind and class of the request whose
    response deviated.  (Not the whole mix: the same root cause is reached from every mix
    that contains the victim class, and must keep one signature on every seed.)"""
    return "%s:%s" % (kind, REQ_CLASS[rid])


def judge(case, r):
    """-> [(signature, message)] for a finished, conclusive run"""
    mix_id = case["mix"]
    kind, rids = MIXES[mix_id]
    S = r.sched
    ctx = describe(case, S)
    fails = []
    if S.deadlock is not None:
        return [("C12|deadlock|%s" % kind, "mix %s: all workers blocked: %s; %s"
                 % (mix_id, S.deadlock, ctx))]
    wsdl_bodies = []
    for i, (rid, w) in enumerate(zip(rids, S.workers)):
        res = w.result
        esc = w.escaped if w.escaped is not None else (None if res is None else res.escaped)
        if esc is not None or res is None:
            et, where = F.exc_origin(esc) if esc is not None else ("NoResult", "?")
            fails.append(("C12|escaped|%s|%s|%s" % (et, where, victim(kind, rid)),
                          "mix %s worker %d (%s): %r escaped; %s" % (mix_id, i, rid, esc, ctx)))
            continue
        exp = expected(kind, rid)
        got = triple(res)
        if rid == "wsdl":
            wsdl_bodies.append(got[2])
        if got == exp:
            continue
        part = "status" if got[0] != exp[0] else ("body" if got[2] != exp[2] else "headers")
        if rid == "wsdl" and part == "body":
            at = _first_diff(got[2], exp[2])
            fails.append(("C12|wsdl-differs-from-sequential",
                          "worker %d got a WSDL of %d bytes, the sequential build has %d; first "
                          "difference at byte %d: got %s, sequential %s; %s"
                          % (i, len(got[2]), len(exp[2]), at, _show(got[2], at),
                             _show(exp[2], at), ctx)))
            continue
        at = _first_diff(got[2], exp[2])
        fails.append(("C12|response-differs|%s|%s" % (victim(kind, rid), part),
                      "mix %s worker %d (%s): alone it gets %r %r %s, here it got %r %r %s; %s"
                      % (mix_id, i, rid, exp[0], exp[1], _show(exp[2], at, 400), got[0], got[1],
                         _show(got[2], at, 400), ctx)))
    if len(set(wsdl_bodies)) > 1:
        fails.append(("C12|wsdl-callers-disagree",
                      "?wsdl callers received %d different documents (sizes %r); %s"
                      % (len(set(wsdl_bodies)), [len(b) for b in wsdl_bodies], ctx)))
    if r.builds > 1:
        fails.append(("C12|wsdl-built-twice",
                      "Wsdl11.build_interface_document ran %d times on one WsgiApplication; %s"
                      % (r.builds, ctx)))
    return fails


def site_fn(site):
    return site or "?"


def run_case(case, rec):
    if "stress" in case:
        return run_stress(case, rec)
    mix_id = case["mix"]
    kind, rids = MIXES[mix_id]
    for rid in rids:
        expected(kind, rid)
    r = run_mix(mix_id, case["schedule"])
    S = r.sched
    classes = ["mix:" + mix_id, "threads:%d" % len(rids)]
    if S.deadlock is None and S.inconclusive:
        # un-instrumented blocking or a stuck thread: counted, never reported
        rec.count("inconclusive")
        rec.count("inconclusive:" + ("stuck-thread" if S.stuck else "watchdog"))
        rec.case(case, failures=[], nontrivial=None, classes=classes + ["inconclusive"])
        return []
    fails = judge(case, r)
    rec.count("schedules")
    if fails:
        rec.count("schedules-deviating")
    pre = S.preemptions
    classes.append("preemptions:%d" % len(pre))
    nt = None
    if any(k == sched.LINE for _, _, _, _, k in pre):
        nt = {"mix": mix_id, "sites": [site_fn(s) for _, _, _, s, _ in pre],
              "dir": [[a, b] for _, a, b, _, _ in pre]}
        classes.append("nontrivial")
    for _, _, _, s, k in pre:
        classes.append("site:%s:%s" % ("line" if k == sched.LINE else "call", site_fn(s)))
    if r.wsdl_lock is not None and r.wsdl_lock.contended:
        classes.append("wsdl-lock-contended")
    if r.builds:
        classes.append("wsdl-built")
    rec.case(case, failures=fails, nontrivial=nt, classes=classes)
    return fails


# ---------------------------------------------------------------------------------------
# un-scheduled stress (real pre-emptive threads; not deterministic: separate signature)
def run_stress(case, rec):
    mix_id = case["mix"]
    kind, rids = MIXES[mix_id]
    n_threads, iters = case["stress"]["threads"], case["stress"]["iters"]
    exp = {rid: expected(kind, rid) for rid in rids}
    reset_memo()
    wsgi = build_app(kind)
    counter = []
    count_builds(wsgi, counter)
    # The caches that fill on first use are the business of the scheduled part (which finds
    # their races deterministically); here they are warm, so that what the stress part
    # reports does not depend on the luck of the first milliseconds.  ?wsdl stays cold.
    for rid in rids:
        if rid != "wsdl":
            drive.wsgi_call(wsgi, make_environ(kind, rid))
    bad = []          # (thread, iteration, rid, part, got)
    gate = threading.Event()

    def work(t):
        gate.wait()
        for it in range(iters):
            rid = rids[(t + it) % len(rids)]
            res = drive.wsgi_call(wsgi, make_environ(kind, rid))
            if res.escaped is not None:
                bad.append((t, it, rid, "escaped", res.escaped))
            elif triple(res) != exp[rid]:
                got = triple(res)
                part = ("status" if got[0] != exp[rid][0] else
                        "body" if got[2] != exp[rid][2] else "headers")
                bad.append((t, it, rid, part, got))

    ths = [threading.Thread(target=work, args=(t,), daemon=True) for t in range(n_threads)]
    old = sys.getswitchinterval()
    sys.setswitchinterval(1e-6)
    try:
        for th in ths:
            th.start()
        gate.set()
        for th in ths:
            th.join(120.0)
    finally:
        sys.setswitchinterval(old)
    classes = ["mix:" + mix_id, "stress"]
    if any(th.is_alive() for th in ths):
        rec.count("inconclusive")
        rec.count("inconclusive:stress-stuck-thread")
        rec.case(case, failures=[], nontrivial=None, classes=classes + ["inconclusive"])
        return []
    fails = []
    seen = set()
    for t, it, rid, part, got in bad:
        if part == "escaped":
            et, where = F.exc_origin(got)
            sig = "C12|stress|escaped|%s|%s|%s" % (et, where, victim(kind, rid))
            msg = "thread %d iteration %d (%s): %r escaped" % (t, it, rid, got)
        else:
            sig = "C12|stress|response-differs|%s|%s" % (victim(kind, rid), part)
            at = _first_diff(got[2], exp[rid][2])
            msg = ("thread %d iteration %d (%s): alone %r %s, under %d free-running threads %r %s"
                   % (t, it, rid, exp[rid][0], _show(exp[rid][2], at, 300), n_threads, got[0],
                      _show(got[2], at, 300)))
        if sig not in seen:
            seen.add(sig)
            fails.append((sig, msg))
    if len(counter) > 1:
        fails.append(("C12|stress|wsdl-built-twice",
                      "build_interface_document ran %d times under %d free-running threads"
                      % (len(counter), n_threads)))
    rec.count("stress-requests", n_threads * iters)
    rec.case(case, failures=fails, nontrivial=None, classes=classes)
    return fails


# ---------------------------------------------------------------------------------------
# enumeration / generation of schedules
_calib = {}


def calibrate(mix_id, prio):
    """serial run in priority order -> (total steps, [steps per worker])"""
    key = (mix_id, tuple(prio))
    if key not in _calib:
        kind, rids = MIXES[mix_id]
        for rid in rids:
            expected(kind, rid)
        out = None
        for _ in range(2):           # the second run is the reference (warm process state)
            r = run_mix(mix_id, {"mode": "pre", "prio": list(prio), "pre": []})
            out = (r.sched.step, [w.steps for w in r.sched.workers])
        _calib[key] = out
    return _calib[key]


K1_PARTS = 8


def shards(tier):
    out = []
    quick = tier == "quick"
    for mix_id in sorted(MIXES):
        if mix_id in STRESS:
            continue
        out.append({"kind": "enum", "part": "k0", "mix": mix_id})
    for mix_id in mixes2(tier):
        for start in (0, 1):
            for i in range(K1_PARTS):
                out.append({"kind": "enum", "part": "k1", "mix": mix_id, "start": start,
                            "i": i, "of": K1_PARTS, "stride": 1})
            g = 8 if quick else 48
            parts = 1 if quick else 16
            for i in range(parts):
                out.append({"kind": "enum", "part": "k2", "mix": mix_id, "start": start,
                            "grid": g, "i": i, "of": parts})
    for mix_id in sorted(MIXES):
        n_thr = len(MIXES[mix_id][1])
        if mix_id in STRESS or (n_thr == 2 and mix_id not in mixes2(tier)):
            continue
        if n_thr > 2:
            n, parts = (100, 2) if quick else (1500, 4)
        else:
            n, parts = (30, 1) if quick else (600, 1)
        for mode in ("pre", "pct"):
            for i in range(parts):
                out.append({"kind": "hyp", "mix": mix_id, "mode": mode, "i": i, "n": n})
    for mix_id in sorted(STRESS):
        reps = 1 if quick else 6
        for i in range(reps):
            out.append({"kind": "enum", "part": "stress", "mix": mix_id, "i": i,
                        "threads": 16 if quick else 32, "iters": 100})
    return out


def _perms(n):
    import itertools
    return [list(p) for p in itertools.permutations(range(n))]


def schedules_for(shard, rec=None):
    """enumerated shards -> iterator of cases"""
    mix_id = shard["mix"]
    n = len(MIXES[mix_id][1])
    part = shard["part"]
    if part == "k0":
        for p in _perms(n):
            yield {"mix": mix_id, "k": 0, "schedule": {"mode": "pre", "prio": p, "pre": []}}
    elif part == "k1":
        a = shard["start"]
        b = 1 - a
        total, per = calibrate(mix_id, [a, b])
        if shard["i"] == 0 and rec is not None:
            rec.count("yield-points|%s|first=%s" % (mix_id, MIXES[mix_id][1][a]), per[a])
        pos = list(range(0, per[a], shard["stride"]))
        for s in pos[shard["i"]::shard["of"]]:
            yield {"mix": mix_id, "k": 1,
                   "schedule": {"mode": "pre", "prio": [a, b], "pre": [[s, b]]}}
    elif part == "k2":
        a = shard["start"]
        b = 1 - a
        total, per = calibrate(mix_id, [a, b])
        g = shard["grid"]
        st1 = max(1, per[a] // g)
        st2 = max(1, per[b] // g)
        pairs = [(s1, s1 + 1 + d) for s1 in range(st1 // 2, per[a], st1)
                 for d in range(st2 // 2, per[b], st2)]
        for s1, s2 in pairs[shard["i"]::shard["of"]]:
            yield {"mix": mix_id, "k": 2,
                   "schedule": {"mode": "pre", "prio": [a, b], "pre": [[s1, b], [s2, a]]}}
    elif part == "stress":
        yield {"mix": mix_id, "stress": {"threads": shard["threads"], "iters": shard["iters"]},
               "i": shard["i"]}


def schedule_strategy(mix_id, mode):
    n = len(MIXES[mix_id][1])
    total, _ = calibrate(mix_id, list(range(n)))
    steps = st.integers(0, total - 1)
    prio = st.permutations(list(range(n)))
    if mode == "pre":
        pre = st.lists(st.tuples(steps, st.integers(0, n - 1)), min_size=1, max_size=4)
        return st.tuples(prio, pre).map(lambda x: {
            "mix": mix_id, "k": len(x[1]),
            "schedule": {"mode": "pre", "prio": list(x[0]),
                         "pre": [list(p) for p in sorted(x[1])]}})
    chg = st.lists(steps, min_size=1, max_size=3, unique=True)
    return st.tuples(prio, chg).map(lambda x: {
        "mix": mix_id, "k": len(x[1]),
        "schedule": {"mode": "pct", "prio": list(x[0]), "chg": sorted(x[1])}})


def run_shard(shard, rec):
    if shard["kind"] == "hyp":
        rec.hyp(schedule_strategy(shard["mix"], shard["mode"]),
                lambda case: run_case(case, rec), shard["n"])
    else:
        for case in schedules_for(shard, rec):
            run_case(case, rec)


class _NullRec(object):
    tier = "quick"

    def case(self, *a, **k):
        pass

    def count(self, *a, **k):
        pass


def replay(case):
    return run_case(case, _NullRec())
