"""C14 -- Event hooks fire in documented order, exactly once, on success and failure.

case = (protocol family, transport, failure point (+ exception kind), listener layout,
        level of the raising listener, argument values)

Every case builds a fresh application: a base service class, a derived service class with
the public methods, an optional method-level EventManager, and recording listeners on the
application / base service / service / method managers as the layout says (some registered
twice).  Every listener appends ('L', level, listener id, event) to one shared trace; the user
function appends ('F', 'enter'|'return'|'raise'); protocol- and transport-level observers
append ('O', source, event).  One request is sent through the chosen transport and the
trace is checked by a specification automaton written from the property statement and the
class docstrings of Application, Service, EventManager, ProtocolBase and WsgiApplication.

Signatures:  C14|<rule>:<kind>|<failure point[:exception kind]>|<transport>[|svc-level]
             C14|listeners:<kind>|<manager>            (registration order / duplicates / inheritance)
             C14|escaped|<failure point>|<transport>|<ExcType>|<file.py:function>
`svc-level` is appended when only the service/method-level managers (not the application
manager) show the violation.
"""
import json
from urllib.parse import quote
from xml.sax.saxutils import escape as xml_escape

from hypothesis import strategies as st

from .. import drive
from .. import findings as F

PROPERTY = "C14"
RULE = ("cases = grid of (protocol family in {xml, soap11, json, msgpack, yaml, http-GET/json}, "
        "transport in {ServerBase pipeline, WsgiApplication, NullServer with and without ostr}, "
        "failure point in {success, malformed bytes, bad SOAP envelope x3, unknown method, "
        "invalid argument (soft validator), raising method_call listener, raising "
        "method_return_object listener, raising function (each Fault / non-Fault), "
        "unserialisable return value (XML family)}, listener layout (application / service / "
        "inherited-from-base-service / method level, duplicates), level of the raising listener), "
        "enumerated exhaustively, plus Hypothesis-generated argument values on random grid cells. "
        "Oracle = specification automaton over the recorded event trace. Non-trivial = a failure "
        "is injected or >=2 listener levels are populated; distinct = (family, transport, failure "
        "point, exception kind, layout, level of the raising listener)")
ASSUMPTIONS = [
    "method_context_created / method_context_closed are documented for the Application manager "
    "only and are required only there; service- and method-level managers are required to see "
    "events only when the request was mapped to a method (they hang off the method descriptor)",
    "no order is asserted between the managers of different levels, nor between inherited and "
    "own listeners of a service; a raising listener stops the remaining listeners of its event, "
    "so the other managers may see that one firing zero or one times",
    "NullServer delivers an error by raising it to the caller (any exception it raises counts "
    "as the fault reply): it serialises no fault, so the *_document/*_string events are "
    "required from it only for ostr=True on success; only the "
    "synchronous proxy (server.service) is driven -- the async proxy leaves closing to a Deferred",
    "an unserialisable return value is not sent through the bare ServerBase pipeline: "
    "ServerBase.get_out_string lets the exception out and recovery is the concrete transport's "
    "duty (WsgiApplication and NullServer(ostr=True) are driven instead)",
    "method_accept_document (listed in the Service docstring) is not part of the property "
    "statement; it is recorded but not required",
    "protocol (before/after_(de)serialize) and transport (wsgi_*) observers are recorded; only "
    "'before precedes after' and 'wsgi_close exactly once per rpc call' are asserted",
    "HttpRpc is driven through WSGI GET only (werkzeug is not installed)",
]
EXHAUSTIVE = {
    "quick": ["the whole grid family x transport x failure point x exception kind x listener "
              "layout x level of the raising listener, for 3 argument value sets"],
    "thorough": ["the whole grid family x transport x failure point x exception kind x listener "
                 "layout x level of the raising listener, for 3 argument value sets"],
}
MAXTASKSPERCHILD = 8

SOAP_ENV = "http://schemas.xmlsoap.org/soap/envelope/"

EVENTS = ("method_context_created", "method_context_closed", "method_call",
          "method_return_object", "method_exception_object", "method_accept_document",
          "method_return_document", "method_exception_document", "method_return_string",
          "method_exception_string")

FAMILIES = ("xml", "soap11", "json", "msgpack", "yaml", "http")
TRANSPORTS = ("server", "wsgi", "null", "null_ostr")
XMLFAM = ("xml", "soap11")

# listener layouts: level -> registration list (listener ids in registration order; a repeated id
# is the same function object registered again).  'base' listeners are registered on the base
# service class before the service class is derived from it; an id that occurs in both 'base'
# and 'svc' is one function registered on both classes.
LAYOUTS = {
    "app1": {"app": ["a"]},
    "app_dup": {"app": ["a", "b", "a"]},
    "app_svc": {"app": ["a", "b"], "svc": ["a", "b"]},
    "app_meth": {"app": ["a"], "meth": ["a", "b"]},
    "all3": {"app": ["a", "b", "c"], "svc": ["a", "b", "c"], "meth": ["a", "b", "c"]},
    "all3_dup": {"app": ["a", "b", "a"], "svc": ["a", "a", "b"], "meth": ["b", "a", "b", "a"]},
    "inherit": {"app": ["a"], "base": ["p", "q"], "svc": ["a", "b"]},
    "inherit_dup": {"app": ["a", "b"], "base": ["p", "q", "p"], "svc": ["a", "q", "b"],
                    "meth": ["a"]},
    "inherit_only": {"app": ["a"], "base": ["p", "q"]},
    # two listener-carrying base services (multiple inheritance), both listening to every event
    "inherit2": {"app": ["a"], "base": ["p", "q"], "base2": ["r", "s"], "svc": ["a"]},
    "inherit2_only": {"app": ["a"], "base": ["p"], "base2": ["r", "s", "r"]},
}
LAYOUT_IDS = tuple(LAYOUTS)

LISTENER_FPS = {"call_listener": "method_call", "return_listener": "method_return_object"}
UNRESOLVED_FPS = ("malformed", "bad_envelope:root", "bad_envelope:nobody",
                  "bad_envelope:emptybody", "unknown_method")


def _fps_for(fam, tr):
    """[(failure point, exception kind)] applicable to one (family, transport)"""
    null = tr.startswith("null")
    out = [("success", None)]
    if not null and fam != "http":
        out.append(("malformed", None))
    if not null and fam == "soap11":
        out += [("bad_envelope:root", None), ("bad_envelope:nobody", None),
                ("bad_envelope:emptybody", None)]
    out.append(("unknown_method", None))
    if not null:
        out.append(("invalid_arg", None))
    for fp in ("call_listener", "return_listener", "function"):
        out += [(fp, "fault"), (fp, "nonfault")]
    if fam in XMLFAM and tr in ("wsgi", "null_ostr"):
        out.append(("unserialisable", None))
    return out


def _levels(layout):
    lay = LAYOUTS[layout]
    return [l for l in ("app", "base", "svc", "meth") if lay.get(l)]


def grid():
    """the enumerated domain (without argument values), in a fixed order"""
    out = []
    for fam in FAMILIES:
        for tr in TRANSPORTS:
            if fam == "http" and tr != "wsgi":
                continue
            for fp, exc in _fps_for(fam, tr):
                for layout in LAYOUT_IDS:
                    if fp in LISTENER_FPS:
                        for rl in _levels(layout):
                            out.append({"fam": fam, "tr": tr, "fp": fp, "exc": exc,
                                        "layout": layout, "rlevel": rl})
                    else:
                        out.append({"fam": fam, "tr": tr, "fp": fp, "exc": exc,
                                    "layout": layout, "rlevel": None})
    return out


_GRID = []


def _grid():
    if not _GRID:
        _GRID.extend(grid())
    return _GRID


ARGSETS = [(1, "x"), (0, "<&>'\" é中"), (2 ** 40 + 7, "a b=c&d;e/f?g#h%41+")]

_TEXT = st.text(alphabet=st.characters(min_codepoint=0x20, max_codepoint=0x2FFF,
                                       blacklist_categories=("Cs", "Cc", "Cn", "Zl", "Zp")),
                min_size=1, max_size=12)


BATCH, STRIDE = 8, 349      # STRIDE is coprime with the grid size: a batch spreads over the grid


def _batches():
    """one Hypothesis example = one generated argument pair run on BATCH grid cells (Hypothesis
    costs more per example than a case does; every cell still is its own case / replay file)"""
    n = len(_grid())
    # sampled_from is uniform; integers(0, n - 1) returns 0 for every fifth example
    return st.tuples(st.sampled_from(range(n)),
                     st.one_of(st.integers(0, 1000), st.integers(0, 2 ** 62)),
                     _TEXT).map(lambda t: {"j": t[0], "a": t[1], "s": t[2]})


def _run_batch(b, rec):
    cells = _grid()
    fails = []
    for i in range(BATCH):
        cell = cells[(b["j"] + i * STRIDE) % len(cells)]
        fails.extend(run_case(dict(cell, a=b["a"], s=b["s"]), rec))
    return fails


# --------------------------------------------------------------------------- building
_uniq = [0]


class Env(object):
    """one freshly built application with recording listeners"""

    def __init__(self, case):
        from spyne import Application, Service, rpc, EventManager
        from spyne.error import Fault
        from spyne.model.primitive import Integer, Unicode, DateTime

        self.case = case
        self.trace = trace = []
        lay = LAYOUTS[case["layout"]]
        fp, exck = case["fp"], case["exc"]
        self.raise_event = LISTENER_FPS.get(fp)

        def make_exc():
            if exck == "fault":
                return Fault("Client.Injected", "injected by the harness")
            return RuntimeError("injected by the harness")

        # registration lists per level and event ------------------------------------
        self.reg = reg = {}
        for level in ("app", "base", "base2", "svc", "meth"):
            ids = list(lay.get(level, ()))
            reg[level] = {}
            for ev in EVENTS:
                l = list(ids)
                if ev == self.raise_event and case["rlevel"] == level:
                    l.insert(1 if l else 0, "x")
                reg[level][ev] = l

        fns = {}

        def listener(mgr, lid, ev):
            # 'base' and 'svc' registrations of one id share one function: the trace names the
            # manager that runs them ('svc')
            tl = "svc" if mgr in ("base", "base2") else mgr
            key = (tl, lid, ev)
            if key not in fns:
                if lid == "x":
                    def f(ctx, _k=key):
                        trace.append(("L",) + _k)
                        raise make_exc()
                else:
                    def f(ctx, _k=key):
                        trace.append(("L",) + _k)
                fns[key] = f
            return fns[key]

        def register(mgr_obj, level):
            for ev in EVENTS:
                for lid in reg[level][ev]:
                    mgr_obj.add_listener(ev, listener(level, lid, ev))

        # even argument values: the method declares TWO return values (another branch of
        # Application.process_request wraps the result)
        two = isinstance(case.get("a"), int) and case["a"] % 2 == 0

        # functions -----------------------------------------------------------------
        def m(ctx, a, s):
            trace.append(("F", "enter"))
            if fp == "function":
                trace.append(("F", "raise"))
                raise make_exc()
            trace.append(("F", "return"))
            if two:
                return "%s:%s" % (s, a), a
            return "%s:%s" % (s, a)

        def u(ctx, a, s):
            trace.append(("F", "enter"))
            trace.append(("F", "return"))
            return 5          # declared DateTime: the XML protocols cannot serialise an int

        self.meth_mgr = None
        kw_m = {"_returns": [Unicode, Integer] if two else Unicode}
        kw_u = {"_returns": DateTime}
        if lay.get("meth") or case["rlevel"] == "meth":
            self.meth_mgr = EventManager(None)
            register(self.meth_mgr, "meth")
            kw_m["_evmgr"] = self.meth_mgr
            kw_u["_evmgr"] = self.meth_mgr

        if "base" in lay:
            Base = type("BaseSvc", (Service,), {})
            register(Base.event_manager, "base")
        else:
            Base = Service
        self.Base = Base
        bases = (Base,)
        if "base2" in lay:
            Base2 = type("BaseSvc2", (Service,), {})
            register(Base2.event_manager, "base2")
            bases = (Base, Base2)
        self.Svc = type("Svc", bases, {
            "m": rpc(Integer(ge=0), Unicode, **kw_m)(m),
            "u": rpc(Integer(ge=0), Unicode, **kw_u)(u),
        })
        register(self.Svc.event_manager, "svc")

        inp, outp = _protocols(case["fam"])
        _uniq[0] += 1
        self.tns = "urn:c14:t%d" % _uniq[0]
        self.app = Application([self.Svc], tns=self.tns, name="C14App%d" % _uniq[0],
                               in_protocol=inp, out_protocol=outp)
        register(self.app.event_manager, "app")

        def observer(src, ev):
            def f(ctx):
                trace.append(("O", src, ev))
            return f
        for ev in ("before_deserialize", "after_deserialize"):
            inp.event_manager.add_listener(ev, observer("in_protocol", ev))
        for ev in ("before_serialize", "after_serialize"):
            outp.event_manager.add_listener(ev, observer("out_protocol", ev))
        self.observer = observer

    # expected listener order per firing ----------------------------------------------
    def expected(self, level, ev):
        """-> list of groups (name, listener ids in the order they must run, raw registrations)"""
        def dedupe(l):
            out = []
            for x in l:
                if x not in out:
                    out.append(x)
            return out
        if level == "svc":
            inh = dedupe(self.reg["base"][ev])
            inh2 = [x for x in dedupe(self.reg["base2"][ev]) if x not in inh]
            own = [x for x in dedupe(self.reg["svc"][ev]) if x not in inh + inh2]
            return [("svc-inherited", inh, list(self.reg["base"][ev])),
                    ("svc-inherited2", inh2, [x for x in self.reg["base2"][ev] if x not in inh]),
                    ("svc", own, [x for x in self.reg["svc"][ev] if x not in inh + inh2])]
        return [(level, dedupe(self.reg[level][ev]), list(self.reg[level][ev]))]


def _protocols(fam):
    from spyne.protocol.xml import XmlDocument
    from spyne.protocol.soap import Soap11
    from spyne.protocol.json import JsonDocument
    from spyne.protocol.msgpack import MessagePackDocument
    from spyne.protocol.yaml import YamlDocument
    from spyne.protocol.http import HttpRpc
    if fam == "xml":
        return XmlDocument(validator="soft"), XmlDocument()
    if fam == "soap11":
        return Soap11(validator="soft"), Soap11()
    if fam == "json":
        return JsonDocument(validator="soft"), JsonDocument()
    if fam == "msgpack":
        return MessagePackDocument(validator="soft"), MessagePackDocument()
    if fam == "yaml":
        return YamlDocument(validator="soft"), YamlDocument()
    if fam == "http":
        return HttpRpc(validator="soft"), JsonDocument()
    raise ValueError(fam)


_MALFORMED = {"xml": b"<m><a>1</a", "soap11": b"<<<", "json": b'{"m": {"a": ',
              "msgpack": b"\xc1", "yaml": b"m: [1, "}
_CTYPE = {"xml": "text/xml; charset=utf-8", "soap11": "text/xml; charset=utf-8",
          "json": "application/json", "msgpack": "application/x-msgpack", "yaml": "text/yaml",
          "http": None}


def request_bytes(fam, tns, method, a, s):
    if fam in XMLFAM:
        el = '<%s xmlns="%s"><a>%d</a><s>%s</s></%s>' % (method, tns, a, xml_escape(s), method)
        if fam == "soap11":
            el = '<e:Envelope xmlns:e="%s"><e:Body>%s</e:Body></e:Envelope>' % (SOAP_ENV, el)
        return el.encode("utf8")
    if fam == "json":
        return json.dumps({method: {"a": a, "s": s}}).encode("utf8")
    if fam == "msgpack":
        import msgpack
        return msgpack.packb({method.encode("ascii"): {"a": a, "s": s}})
    if fam == "yaml":
        import yaml
        return yaml.safe_dump({method: {"a": a, "s": s}}, allow_unicode=True).encode("utf8")
    raise ValueError(fam)


def build_request(case, tns):
    """-> (method name, a, body bytes or None)"""
    fam, fp = case["fam"], case["fp"]
    a, s = case["a"], case["s"]
    method = "m"
    if fp == "unknown_method":
        method = "nope"
    elif fp == "unserialisable":
        method = "u"
    if fp == "invalid_arg":
        a = -1 - a
    if fam == "http":
        return method, a, None
    if fp == "malformed":
        return method, a, _MALFORMED[fam]
    if fp == "bad_envelope:root":
        return method, a, request_bytes("xml", tns, method, a, s)
    if fp == "bad_envelope:nobody":
        return method, a, ('<e:Envelope xmlns:e="%s"></e:Envelope>' % SOAP_ENV).encode()
    if fp == "bad_envelope:emptybody":
        return method, a, ('<e:Envelope xmlns:e="%s"><e:Body/></e:Envelope>' % SOAP_ENV).encode()
    return method, a, request_bytes(fam, tns, method, a, s)


def is_fault_body(fam, body):
    """does the reply document denote a fault?  (read from the wire, not from the context)
    -> True / False / None when it is neither a fault nor a result"""
    try:
        if fam in XMLFAM:
            from lxml import etree
            el = etree.fromstring(body)
            if fam == "soap11":
                if el.tag != "{%s}Envelope" % SOAP_ENV:
                    return None
                b = el.find("{%s}Body" % SOAP_ENV)
                kids = [c for c in (b if b is not None else []) if isinstance(c.tag, str)]
                if len(kids) != 1:
                    return None
                el = kids[0]
            name = etree.QName(el).localname
            if name == "Fault":
                return True
            return False if name.endswith("Response") else None
        if fam in ("json", "http"):
            doc = json.loads(body.decode("utf8"))
        elif fam == "msgpack":
            import msgpack
            doc = msgpack.unpackb(body)
        else:
            import yaml
            doc = yaml.safe_load(body.decode("utf8"))
    except Exception:
        return None
    return isinstance(doc, dict) and ("faultcode" in doc or b"faultcode" in doc)


class Reply(object):
    def __init__(self):
        self.fault = None        # True / False: what the caller received
        self.escaped = None      # (exception, stage)
        self.detail = ""


def drive_case(E):
    """send the request of E.case through its transport -> Reply"""
    case = E.case
    tr, fam = case["tr"], case["fam"]
    method, a, body = build_request(case, E.tns)
    s = case["s"]
    R = Reply()
    if tr == "server":
        out = drive.server_call(E.app, body)
        if out.escaped is not None:
            R.escaped = out.escaped
        else:
            R.fault = is_fault_body(fam, out.out_bytes)
            R.detail = "fault=%r body=%r" % (out.fault, out.out_bytes[:200])
    elif tr == "wsgi":
        from spyne.server.wsgi import WsgiApplication
        w = WsgiApplication(E.app)
        for ev in ("wsgi_call", "wsgi_return", "wsgi_exception", "wsgi_close"):
            w.event_manager.add_listener(ev, E.observer("transport", ev))
        if fam == "http":
            env_ = drive.environ(method="GET", path="/" + method,
                                 query="a=%d&s=%s" % (a, quote(s.encode("utf8"), safe="")),
                                 body=b"", content_type=None, content_length=None)
        else:
            env_ = drive.environ(method="POST", path="/", body=body, content_type=_CTYPE[fam])
        res = drive.wsgi_call(w, env_)
        if res.escaped is not None:
            R.escaped = (res.escaped, "wsgi")
        else:
            R.fault = is_fault_body(fam, res.body)
            R.detail = "status=%r body=%r" % (res.status, res.body[:200])
    else:
        from spyne.server.null import NullServer
        srv = NullServer(E.app, ostr=(tr == "null_ostr"))
        try:
            ret = getattr(srv.service, method)(a, s)
            if tr == "null_ostr":
                ret = b"".join(ret)
            R.fault = False
            R.detail = "returned %r" % (ret,)
        except Exception as e:
            # NullServer's error channel is `raise`: whatever it raises is the (error) reply
            R.fault = True
            R.detail = "raised %r" % (e,)
    return R


# --------------------------------------------------------------------------- the oracle
def _blocks(trace):
    """timeline: ('E', event, {level: [listener ids]}) for a maximal run of listener records of
    one event; ('F', what); ('O', source, event)"""
    tl = []
    for rec in trace:
        if rec[0] == "L":
            _, level, lid, ev = rec
            if tl and tl[-1][0] == "E" and tl[-1][1] == ev:
                tl[-1][2].setdefault(level, []).append(lid)
            else:
                tl.append(("E", ev, {level: [lid]}))
        else:
            tl.append(rec)
    return tl


def _match_group(obs, exp, raiser, raw):
    """obs: ids recorded for one group of one manager in one block; exp: required order;
    raw: the registration list including repeated registrations.
    -> (number of firings, problem kind or None)"""
    if not obs:
        return 0, None
    if set(obs) - set(exp):
        return 1, "unexpected"
    if raiser and "x" in exp:
        exp = exp[:exp.index("x") + 1]
        raw = raw[:raw.index("x") + 1]
    if raw != exp and obs == raw:
        # one firing in which every registration ran, the repeated ones included (told apart
        # from the event being fired twice, which [b, a, b, a] would otherwise also match)
        return 1, "duplicate-ran-twice"
    n, r = divmod(len(obs), len(exp))
    if r == 0 and obs == exp * n:
        return n, None
    counts = [obs.count(x) for x in exp]
    k = min([c for c in counts if c] or [1])
    if min(counts) == 0:
        return k, "missing"
    if max(counts) != min(counts):
        return k, "duplicate-ran-twice"
    return k, "registration-order"


class Oracle(object):
    def __init__(self, E, reply):
        self.E, self.case, self.reply = E, E.case, reply
        self.fails = []
        self.seen = set()
        c = self.case
        self.fpname = c["fp"] + (":" + c["exc"] if c["exc"] else "")
        self.resolved = c["fp"] not in UNRESOLVED_FPS

    def fail(self, sig, msg):
        if sig not in self.seen:
            self.seen.add(sig)
            c = self.case
            self.fails.append((sig, "%s [%s/%s/%s layout=%s raiser@%s a=%r s=%r; %s]\ntrace: %s"
                               % (msg, c["fam"], c["tr"], self.fpname, c["layout"], c["rlevel"],
                                  c["a"], c["s"], self.reply.detail, _fmt(self.E.trace))))

    def rule(self, rule, kind, levels, msg, keep_ostr=False):
        tr = self.case["tr"]
        if tr == "null_ostr" and not keep_ostr:
            tr = "null"
        sig = "C14|%s:%s|%s|%s" % (rule, kind, self.fpname, tr)
        if "app" not in levels:
            sig += "|svc-level"
        self.fail(sig, "%s (seen by the %s manager(s))" % (msg, "/".join(sorted(levels))))

    # -----------------------------------------------------------------------------
    def run(self):
        E, case = self.E, self.case
        tl = _blocks(E.trace)
        lay = LAYOUTS[case["layout"]]
        levels = ["app"]
        if lay.get("base") or lay.get("base2") or lay.get("svc") or case["rlevel"] in ("base", "svc"):
            levels.append("svc")
        if E.meth_mgr is not None:
            levels.append("meth")
        rlevel = {"base": "svc"}.get(case["rlevel"], case["rlevel"])

        # rule 7: per firing, the listeners of one manager in registration order, once each;
        # also yields how many times each manager fired the event in that block
        views = {l: [] for l in levels}      # level -> tokens (event names, 'F:enter' ...)
        for item in tl:
            if item[0] == "F":
                for l in levels:
                    views[l].append("F:" + item[1])
                continue
            if item[0] != "E":
                continue
            _, ev, per = item
            for l in levels:
                obs = per.get(l, [])
                raiser = (ev == E.raise_event and l == rlevel)
                ks = []
                gi = 0
                for gname, exp, raw in E.expected(l, ev):
                    gobs = [x for x in obs if x in exp]
                    gi += len(gobs)
                    if not exp:
                        continue
                    k, problem = _match_group(gobs, exp, raiser, raw)
                    ks.append((gname, k))
                    if problem:
                        self.fail("C14|listeners:%s|%s" % (problem, gname),
                                  "%s: listeners of the %s manager ran as %r, registered %r"
                                  % (ev, gname, gobs, exp))
                if gi != len(obs):
                    self.fail("C14|listeners:unexpected|%s" % l,
                              "%s: %s manager ran %r" % (ev, l, obs))
                k = max([k for _, k in ks] or [0])
                if len(ks) >= 2 and not raiser and len(set(x[1] for x in ks)) > 1:
                    which = min(ks, key=lambda x: x[1])[0]
                    self.fail("C14|listeners:missing|%s" % which,
                              "%s: the %s listeners did not run although the other listeners of "
                              "the service manager did (%r)" % (ev, which, obs))
                views[l].extend([ev] * k)
        self.views = views
        # inheritance seen over the call as a whole: a request that was mapped to a method of
        # the derived service always owes its service-level listeners some event (method_call,
        # or method_exception_object), so inherited listeners that never ran were not inherited
        if self.resolved and "svc" in levels:
            inh = E.expected("svc", "method_call")[0][1]
            if inh and not [r for r in E.trace if r[0] == "L" and r[1] == "svc" and r[2] in inh]:
                self.fail("C14|listeners:missing|svc-inherited",
                          "the derived service handled the call but the listeners registered "
                          "on its base service class (%r) never ran" % (inh,))
                if not [t for t in views["svc"] if t[:2] != "F:"]:
                    levels.remove("svc")
        # the injected listener failure must have happened: if the event was fired but the
        # raising listener did not run, its manager lost it -- nothing else can be concluded
        if E.raise_event is not None and \
                not [r for r in E.trace if r[0] == "L" and r[2] == "x"] and \
                [it for it in tl if it[0] == "E" and it[1] == E.raise_event]:
            where = "svc-inherited" if case["rlevel"] == "base" else rlevel
            self.fail("C14|listeners:missing|%s" % where,
                      "%s was fired but the listener registered for it at %s level never ran"
                      % (E.raise_event, case["rlevel"]))
            return self.fails

        if self.reply.escaped is not None:
            exc, stage = self.reply.escaped
            et, where = F.exc_origin(exc)
            tr = case["tr"]
            self.fail("C14|escaped|%s|%s|%s|%s" % (self.fpname, tr, et, where),
                      "%r escaped from the transport at stage %s: the call has no reply, the "
                      "context is never closed" % (exc, stage))
            self.observers(tl)
            return self.fails

        fault = self.reply.fault
        expected = case["fp"] != "success"
        if fault is None:
            self.rule("reply-kind", "neither-result-nor-fault", ["app"],
                      "the reply is neither a result nor a fault document")
            fault = expected
        elif fault != expected:
            self.rule("reply-kind", "fault" if fault else "not-a-fault", ["app"],
                      "the injected failure point and the reply disagree")

        self.rule_created_closed(tl)
        active = ["app"] + ([l for l in levels if l != "app"] if self.resolved else [])
        if not self.resolved:
            bad = [l for l in levels if l != "app" and [t for t in views[l] if t[:2] != "F:"]]
            if bad:
                self.rule("events-without-method", "fired", bad,
                          "service/method-level listeners ran although no method was resolved")
        self.rule_function(active, rlevel)
        self.rule_return_object(active, rlevel)
        self.rule_exception_object(active, fault)
        self.rule_doc_string(active, fault)
        self.observers(tl)
        return self.fails

    # rules 1 and 2 ---------------------------------------------------------------------
    def rule_created_closed(self, tl):
        v = [t for t in self.views["app"]]
        evs = [t for t in v if t[:2] != "F:"]
        n = evs.count("method_context_created")
        if n == 0:
            self.rule("created-first-once", "missing", ["app"],
                      "method_context_created was not seen")
        elif n > 1:
            self.rule("created-first-once", "repeated", ["app"],
                      "method_context_created seen %d times" % n)
        elif v[0] != "method_context_created":
            self.rule("created-first-once", "not-first", ["app"],
                      "%s came before method_context_created" % v[0])
        n = evs.count("method_context_closed")
        if n == 0:
            self.rule("closed-last-once", "missing", ["app"],
                      "method_context_closed was not seen: the transport never closed the context")
        elif n > 1:
            self.rule("closed-last-once", "repeated", ["app"],
                      "method_context_closed seen %d times" % n)
        else:
            last = [it for it in tl if it[0] in ("E", "F")][-1]
            if not (last[0] == "E" and last[1] == "method_context_closed"):
                self.rule("closed-last-once", "not-last", ["app"],
                          "%r came after method_context_closed" % (last[:2],))

    # rule 3 ----------------------------------------------------------------------------
    def rule_function(self, active, rlevel):
        v = self.views["app"]
        n_enter = v.count("F:enter")
        if n_enter > 1:
            self.rule("function-at-most-once", "repeated", ["app"],
                      "the user function ran %d times" % n_enter)
        rep, mis = [], []
        for l in active:
            v = self.views[l]
            if v.count("method_call") > 1:
                rep.append(l)
            if n_enter:
                before = v[:v.index("F:enter")].count("method_call")
                if before == 0:
                    mis.append(l)
        if rep:
            self.rule("method_call-once", "repeated", rep, "method_call fired more than once")
        if mis:
            self.rule("function-after-method_call", "missing", mis,
                      "the user function ran without a preceding method_call")
        if n_enter and self.case["fp"] == "call_listener":
            self.rule("function-after-failed-method_call", "ran", ["app"],
                      "the user function ran although a method_call listener raised")

    # rule 4 ----------------------------------------------------------------------------
    def rule_return_object(self, active, rlevel):
        returned = "F:return" in self.views["app"]
        bad = {}
        for l in active:
            v = self.views[l]
            n = v.count("method_return_object")
            if not returned:
                if n:
                    bad.setdefault("spurious", []).append(l)
                continue
            lenient = (self.case["fp"] == "return_listener" and l != rlevel)
            if n == 0 and not lenient:
                bad.setdefault("missing", []).append(l)
            elif n > 1:
                bad.setdefault("repeated", []).append(l)
            elif n and v.index("method_return_object") < v.index("F:return"):
                bad.setdefault("before-function-returned", []).append(l)
        msg = {"spurious": "method_return_object fired although the function did not return normally",
               "missing": "the function returned normally but method_return_object did not fire",
               "repeated": "method_return_object fired more than once",
               "before-function-returned": "method_return_object fired before the function returned"}
        for kind, ls in sorted(bad.items()):
            self.rule("return_object-iff-returned", kind, ls, msg[kind])

    # rule 5 ----------------------------------------------------------------------------
    def rule_exception_object(self, active, fault):
        bad = {}
        for l in active:
            n = self.views[l].count("method_exception_object")
            if fault and n == 0:
                bad.setdefault("missing", []).append(l)
            elif fault and n > 1:
                bad.setdefault("repeated", []).append(l)
            elif not fault and n:
                bad.setdefault("spurious", []).append(l)
        msg = {"missing": "the call ended in a fault but method_exception_object did not fire",
               "repeated": "method_exception_object fired more than once",
               "spurious": "method_exception_object fired although the reply is not a fault"}
        for kind, ls in sorted(bad.items()):
            self.rule("exception_object-iff-fault", kind, ls, msg[kind])

    # rule 6 ----------------------------------------------------------------------------
    def rule_doc_string(self, active, fault):
        tr = self.case["tr"]
        serialises = tr in ("server", "wsgi") or (tr == "null_ostr" and not fault)
        pre = "method_exception_" if fault else "method_return_"
        other = "method_return_" if fault else "method_exception_"
        bad = {}
        for l in active:
            v = [t for t in self.views[l] if t[:2] != "F:"]
            for suffix in ("document", "string"):
                if v.count(other + suffix):
                    bad.setdefault("nonmatching-" + suffix, []).append(l)
            if not serialises:
                continue
            nd, ns = v.count(pre + "document"), v.count(pre + "string")
            for suffix, n in (("document", nd), ("string", ns)):
                if n == 0:
                    bad.setdefault(suffix + "-missing", []).append(l)
                elif n > 1:
                    bad.setdefault(suffix + "-repeated", []).append(l)
            if nd == 1 and ns == 1:
                i_doc, i_str = v.index(pre + "document"), v.index(pre + "string")
                i_obj = [i for i, t in enumerate(v) if t == pre + "object"]
                if not (i_doc < i_str and all(i < i_doc for i in i_obj)):
                    bad.setdefault("order", []).append(l)
        for kind, ls in sorted(bad.items()):
            what = "fault" if fault else "normal"
            self.rule("document-string-pair", kind, ls,
                      "reply is %s: expected exactly %sdocument then %sstring after %sobject and "
                      "none of %s*" % (what, pre, pre, pre, other), keep_ostr=True)

    # observers --------------------------------------------------------------------------
    def observers(self, tl):
        obs = [(it[1], it[2]) for it in tl if it[0] == "O"]
        for src, b, a in (("in_protocol", "before_deserialize", "after_deserialize"),
                          ("out_protocol", "before_serialize", "after_serialize")):
            seq = [e for s_, e in obs if s_ == src]
            depth = 0
            for e in seq:
                depth += 1 if e == b else -1
                if depth < 0:
                    self.fail("C14|observer-order|%s-before-%s" % (a, b),
                              "%s seen without a preceding %s" % (a, b))
                    break
        if self.case["tr"] == "wsgi" and self.reply.escaped is None:
            n = obs.count(("transport", "wsgi_close"))
            if n != 1:
                self.rule("wsgi_close-once", "missing" if n == 0 else "repeated", ["app"],
                          "wsgi_close fired %d times" % n)


def _fmt(trace):
    out = []
    for r in trace:
        if r[0] == "L":
            out.append("%s.%s:%s" % (r[1], r[2], r[3].replace("method_", "")))
        elif r[0] == "F":
            out.append("FUNCTION-" + r[1])
        else:
            out.append("(%s:%s)" % (r[1], r[2]))
    return " ".join(out)


# --------------------------------------------------------------------------- case runner
def run_case(case, rec):
    fails = []
    case = dict(case)
    case.setdefault("a", 1)
    case.setdefault("s", "x")
    fpname = case["fp"] + (":" + case["exc"] if case["exc"] else "")
    try:
        E = Env(case)
    except Exception as e:
        et, where = F.exc_origin(e)
        fails.append(("C14|build-raises|%s|%s" % (et, where),
                      "building the application raised %r for %r" % (e, case)))
        rec.case(case, failures=fails, classes=["build_error"])
        return fails
    try:
        reply = drive_case(E)
    except Exception as e:          # the harness's own driver failed
        _forget(E)
        et, where = F.exc_origin(e)
        fails.append(("C14|driver-raises|%s|%s" % (et, where),
                      "driving the request raised %r for %r" % (e, case)))
        rec.case(case, failures=fails, classes=["driver_error"])
        return fails
    fails = Oracle(E, reply).run()
    fails.extend(_sibling_isolation(E, case))
    _forget(E)
    nlevels = len(_levels(case["layout"]))
    nt = None
    if case["fp"] != "success" or nlevels >= 2:
        nt = {"fam": case["fam"], "tr": case["tr"], "fp": case["fp"], "exc": case["exc"],
              "layout": case["layout"], "rlevel": case["rlevel"]}
    outcome = "escaped" if reply.escaped is not None else ("fault" if reply.fault else "ok")
    rec.case(case, failures=fails, nontrivial=nt,
             classes=["fam:" + case["fam"], "tr:" + case["tr"], "fp:" + fpname,
                      "layout:" + case["layout"], "outcome:" + outcome,
                      "levels:%d" % nlevels]
             + (["raiser@" + case["rlevel"]] if case["rlevel"] else []))
    return fails


def _sibling_isolation(E, case):
    """listeners registered on the service class itself (after it was derived from a base that
    already listens) belong to that class: a call to a SIBLING service derived from the same
    base must run the inherited listeners only"""
    lay = LAYOUTS[case["layout"]]
    if not (lay.get("base") and lay.get("svc")) or case["fp"] != "success":
        return []
    from spyne import Application, rpc, Unicode
    from spyne.protocol.json import JsonDocument
    own = set(lay["svc"]) - set(lay["base"]) - set(lay.get("base2", ()))
    if not own:
        return []

    def sib(ctx, s):
        return s
    Sib = type("Sib", (E.Base,), {"sib": rpc(Unicode, _returns=Unicode)(sib)})
    _uniq[0] += 1
    app2 = Application([Sib], tns="urn:c14:s%d" % _uniq[0], name="C14Sib%d" % _uniq[0],
                       in_protocol=JsonDocument(), out_protocol=JsonDocument())
    n0 = len(E.trace)
    try:
        drive.server_call(app2, b'{"sib": {"s": "x"}}')
    finally:
        try:
            from spyne.util.appreg import unregister_application
            unregister_application(app2)
        except Exception:
            pass
    leaked = sorted(set(r[2] for r in E.trace[n0:] if r[0] == "L" and r[1] == "svc" and r[2] in own))
    if leaked:
        return [("C14|listeners:leaked|sibling",
                 "listeners %r registered on the service class ran for a call to a sibling service "
                 "derived from the same base" % (leaked,))]
    return []


_ncases = [0]


def _forget(E):
    """state hygiene: spyne keeps every Application in a global registry and every generated
    class in its memoize tables (13 kB per case otherwise)"""
    try:
        from spyne.util.appreg import unregister_application
        unregister_application(E.app)
    except Exception:
        pass
    _ncases[0] += 1
    if _ncases[0] % 256 == 0:
        import gc
        from .. import build
        build.clear_memo()
        gc.collect()


NSHARDS = 16


def shards(tier):
    out = [{"kind": "enum", "i": i, "of": NSHARDS, "argsets": len(ARGSETS)}
           for i in range(NSHARDS)]
    # n = Hypothesis examples; each runs BATCH cases
    if tier == "quick":
        out += [{"kind": "hyp", "i": i, "n": 600} for i in range(16)]
    else:
        out += [{"kind": "hyp", "i": i, "n": 3000} for i in range(64)]
    return out


def run_shard(shard, rec):
    if shard["kind"] == "enum":
        cells = _grid()
        for j in range(shard["i"], len(cells), shard["of"]):
            for a, s in ARGSETS[:shard["argsets"]]:
                run_case(dict(cells[j], a=a, s=s), rec)
    else:
        rec.hyp(_batches(), lambda b: _run_batch(b, rec), shard["n"])


class _NullRec(object):
    tier = "quick"

    def case(self, *a, **k):
        pass

    def count(self, *a, **k):
        pass


def replay(case):
    return run_case(case, _NullRec())
