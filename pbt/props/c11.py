"""C11 -- A request runs exactly the method it names.

case = application spec (pure JSON): protocol family, validator, 2..6 services with 1..6
       methods whose names are adversarially similar (case / affix / dotted variants, custom
       _operation_name / _in_message_name, bare or wrapped one-argument signatures, HttpPatterns,
       auxiliary services, deliberate name clashes) + the list of service orders to try.

For every service order the application is built from fresh classes; every registered public
name and every near-miss derived from it is sent through the protocol's own way of naming the
method.  Each user function appends its id to a per-application list.

Oracle = a reference routing table computed from the spec alone:
    public name of a method = _in_message_name or _operation_name or the function key
    (decorator.py: the in-message name is what every protocol uses; REQUEST_SUFFIX is '')
  registered name   -> exactly [primary function] + its auxiliary functions ran, once each
  unregistered name -> nothing ran and the reply is a Client.* fault (HTTP: 4xx)
  all service orders -> the same construction result and the same outcome per request
  two primaries answering to one public name -> Application(...) must raise
"""
import itertools
import re

from hypothesis import strategies as st

from .. import build, drive
from .. import findings as F

PROPERTY = "C11"
RULE = ("cases = generated application specs (protocol family x validator x 2..6 services x 1..6 "
        "methods drawn from pools of case/prefix/suffix/dotted variants of 1-2 stems, custom "
        "operation / in-message names, bare one-argument methods, HttpPatterns with disjoint "
        "addresses and verbs, auxiliary services, deliberately clashing names, shared service "
        "class names) x service orders (all permutations up to 4 services in the thorough tier "
        "and up to 3 in the quick tier, sampled above) x requests (every public name, and per name: "
        "case flips, one-char prefix/suffix added/removed, Response/Result suffix, one-char "
        "substitution, other namespace, unqualified, hidden python key, empty name, pattern "
        "addresses with wrong verb / extra segment).  An evaluation is one request against one "
        "service order.  Non-trivial = the application has two public names at edit distance <=2 "
        "or differing only by case, and the request is a near-miss or one of the similar names; "
        "distinct = (protocol family, relation of the requested name to the nearest other "
        "registered name, near-miss kind, number of services, permutation class)")
ASSUMPTIONS = [
    "an unqualified XML/SOAP root tag is resolved to the target namespace by documented design "
    "(get_call_handles); for a registered local name it may route or be rejected by schema validation",
    "a '{tns}name' key/path segment in the dict/HTTP protocols may route to name or be not-found",
    "a URL whose last segment names a method that declares HttpPatterns which the request does not "
    "match may route to that method or be not-found (the name-based route is not documented either way)",
    "HttpRpc does not support bare methods (documented NotImplementedError 'deserializing non complex types "
    "is not yet implemented') and MessagePackRpc is written for wrapped messages only (positional parameter "
    "list in, out_message._type_info out): bare methods are generated for the XML family and "
    "Json/Yaml/MessagePackDocument",
    "HttpPattern(host=...) cannot be constructed on Python 3 (TypeError in _compile_host_pattern): hosts are not generated",
    "POST/PUT/PATCH to HttpRpc need werkzeug (not installed): verbs are GET, DELETE, OPTIONS",
    "pattern addresses are pairwise non-overlapping; literal-versus-wildcard priority is not examined",
    "explicit pattern addresses are regular expressions by example (examples/multiple_protocols escapes "
    "the dot): only [a-z0-9/] and <name>/{name} placeholders are generated in them; an address left to "
    "default to the method name is a literal name",
    "specs in which an output message name '<key>Response' equals another message name are not generated "
    "(schema-name clash, not a routing clash); Application(...) may also refuse same-named service classes "
    "with a common function name (check_unique_method_keys): counted, not judged",
]
EXHAUSTIVE = {
    "quick": ["up to 20 fixed adversarial applications x 8 protocol families x every service order x every request kind"],
    "thorough": ["up to 20 fixed adversarial applications x 8 protocol families x every service order x every request kind"],
}
MAXTASKSPERCHILD = 2

PROTS = ["xml", "soap11", "soap12", "json", "yaml", "msgpack", "msgpackrpc", "http"]
XMLFAM = ("xml", "soap11", "soap12")
BARE_OK = ("xml", "soap11", "soap12", "json", "yaml", "msgpack")
SOAPENV = {"soap11": "http://schemas.xmlsoap.org/soap/envelope/",
           "soap12": "http://www.w3.org/2003/05/soap-envelope"}
OTHER_NS = "urn:other"
# foreign namespaces, incl. ones adversarially close to the target namespace
OTHER_FORMS = ("other-ns", "other-ns:ext", "other-ns:path", "other-ns:cut", "other-ns:case")


def other_ns(form, tns):
    if form == "other-ns:ext":
        return tns + "2"
    if form == "other-ns:path":
        return tns + ":v2"
    if form == "other-ns:cut":
        return tns[:-1]
    if form == "other-ns:case":
        return tns.swapcase()
    return OTHER_NS
NAME_RE = re.compile(r"^[A-Za-z_][A-Za-z0-9_.\-]*$")
STEMS = ["m0", "get", "a.b", "a_b", "a-b", "Item", "op.x"]

_uniq = itertools.count()


# =====================================================================================
# pure reference (no spyne below this line until `build`)

def public_name(m):
    return m.get("inmsg") or m.get("op") or m["key"]


def mechanism(m):
    if m.get("inmsg"):
        return "in_message_name"
    if m.get("op"):
        return "operation_name"
    return "key"


def fid_of(si, m):
    return "s%d.%s" % (si, m["key"])


def edit_distance(a, b, cap=3):
    if abs(len(a) - len(b)) >= cap:
        return cap
    prev = list(range(len(b) + 1))
    for i, ca in enumerate(a, 1):
        cur = [i]
        for j, cb in enumerate(b, 1):
            cur.append(min(prev[j] + 1, cur[j - 1] + 1, prev[j - 1] + (ca != cb)))
        prev = cur
    return min(prev[-1], cap)


def relation(a, b):
    """relation of the requested name a to a registered name b"""
    if a == b:
        return "same"
    if a.lower() == b.lower():
        return "case"
    if a and b and (a.startswith(b) or b.startswith(a)):
        return "suffix"          # one is the other plus a suffix
    if a and b and (a.endswith(b) or b.endswith(a)):
        return "prefix"
    d = edit_distance(a, b)
    if d <= 2:
        return "edit%d" % d
    return "far"


def how_differs(req, form, actual):
    """how the requested string differs from the public name of the function that ran
    (root-cause granularity for signatures: independent of how the string was derived)"""
    if form.startswith("other-ns") and req == actual:
        return "other-namespace"
    if req == actual:
        return "same"
    if req.lower() == actual.lower():
        return "case"
    if actual and req.startswith(actual):
        return "suffix-added"
    if actual and req.endswith(actual):
        return "prefix-added"
    if req and actual.startswith(req):
        return "suffix-removed"
    if req and actual.endswith(req):
        return "prefix-removed"
    if len(req) == len(actual):
        return "substitution"
    if edit_distance(req, actual) <= 2:
        return "edit<=2"
    return "unrelated"


_REL_PRIO = ["case", "edit1", "suffix", "prefix", "edit2", "far"]


def nearest_relation(name, names):
    best = "far"
    for n in names:
        if n == name:
            continue
        r = relation(name, n)
        if _REL_PRIO.index(r) < _REL_PRIO.index(best):
            best = r
    return best


class Ref(object):
    """reference routing table of one spec"""

    def __init__(self, spec):
        self.spec = spec
        self.prim = {}        # public name -> [fid] (spec order)
        self.aux = {}         # public name -> [fid]
        self.meth = {}        # fid -> (si, method spec)
        self.patterns = []    # (fid, method, pattern spec)
        for si, s in enumerate(spec["services"]):
            for m in s["methods"]:
                fid = fid_of(si, m)
                self.meth[fid] = (si, m)
                tgt = self.aux if s.get("aux") else self.prim
                tgt.setdefault(public_name(m), []).append(fid)
                if not s.get("aux"):
                    for p in m.get("patterns") or ():
                        self.patterns.append((fid, m, p))
        self.names = sorted(self.prim)
        self.dups = sorted(n for n, v in self.prim.items() if len(v) > 1)
        self.similar = any(relation(a, b) in ("case", "edit1", "edit2")
                           for a, b in itertools.combinations(self.names, 2))
        self.has_patterns = bool(self.patterns)

    def public_of(self, fid):
        return public_name(self.meth[fid][1])

    # -- reasons for which Application(...) may legitimately refuse a duplicate-free spec
    def type_name_clash(self):
        """an output message ('<key>Response') named like another message of the application:
        a clash of schema names that has nothing to do with request routing (wrapped messages are
        refused by Application(...), bare ones make the published schema ambiguous)"""
        ins = set(self.prim)
        outs = {}
        for si, s in enumerate(self.spec["services"]):
            if s.get("aux"):
                continue            # classes of auxiliary methods are not added to the interface
            for m in s["methods"]:
                o = m["key"] + "Response"
                if o in ins:
                    return True
                if outs.setdefault(o, public_name(m)) != public_name(m):
                    return True     # same function name, different public names
        return False

    def method_key_clash(self):
        """same-named service classes of one module with a common function name:
        check_unique_method_keys refuses them by documented design"""
        seen = set()
        for s in self.spec["services"]:
            for m in s["methods"]:
                k = (s["name"], m["key"])
                if k in seen:
                    return True
                seen.add(k)
        return False

    def clash_kind(self, name):
        fids = self.prim[name]
        nkey = len([f for f in fids if mechanism(self.meth[f][1]) == "key"])
        if nkey == len(fids):
            mech = "same-function-name"
        elif nkey:
            mech = "custom-name-equals-function-name"
        else:
            mech = "equal-custom-names"
        sis = set(self.meth[f][0] for f in fids)
        if len(sis) == 1:
            scope = "one-service"
        elif len(set(self.spec["services"][i]["name"] for i in sis)) < len(sis):
            scope = "same-named-service-classes"
        else:
            scope = "two-services"
        return "%s|%s" % (mech, scope)

    # -- expectations ----------------------------------------------------------------
    def lookup(self, name):
        """-> ('run', prim, [aux], mech) | ('dup', [prims], [aux]) | ('none',)"""
        p = self.prim.get(name)
        if not p:
            return ("none",)
        aux = list(self.aux.get(name, ()))
        if len(p) > 1:
            return ("dup", list(p), aux)
        return ("run", p[0], aux, mechanism(self.meth[p[0]][1]))

    def pattern_regex(self, m, p):
        addr = p.get("address")
        if addr is None:
            addr = "/" + public_name(m)
        out = []
        for part in re.split(r"(<[A-Za-z0-9_]+>|\{[A-Za-z0-9_]+\})", addr):
            if re.match(r"^(<[A-Za-z0-9_]+>|\{[A-Za-z0-9_]+\})$", part):
                out.append("[^/]*")
            else:
                out.append(re.escape(part))
        return re.compile("".join(out))

    def http_expect(self, verb, path):
        if not path.startswith("/"):
            path = "/" + path
        hits = []
        for fid, m, p in self.patterns:
            if p.get("verb") is not None and p["verb"] != verb:
                continue
            if self.pattern_regex(m, p).fullmatch(path):
                hits.append(fid)
        if hits:
            fid = hits[0]
            return ("run", fid, list(self.aux.get(self.public_of(fid), ())), "pattern")
        seg = path.split("/")[-1]
        e = self.lookup(seg)
        if e[0] == "run" and self.meth[e[1]][1].get("patterns"):
            return ("maybe",) + e[1:]
        return e


# =====================================================================================
# requests (derived deterministically from the spec)

def shape_of(m):
    return {"arg": m.get("arg"), "bare": bool(m.get("bare"))}


def near_misses(n):
    """[(kind, string)] derived from the registered name n"""
    out = []
    for k, v in (("case-swap", n.swapcase()), ("case-lower", n.lower()), ("case-upper", n.upper()),
                 ("case-cap", n[:1].upper() + n[1:].lower())):
        if v != n:
            out.append((k, v))
    out.append(("prefix-add", "x" + n))
    out.append(("suffix-add", n + "x"))
    if len(n) >= 2:
        out.append(("prefix-del", n[1:]))
        out.append(("suffix-del", n[:-1]))
    out.append(("suffix-Response", n + "Response"))
    out.append(("suffix-Result", n + "Result"))
    sub = None
    for i, ch in enumerate(n):
        if not ch.isalnum():
            sub = n[:i] + "X" + n[i + 1:]
            break
    if sub is None:
        last = n[-1]
        sub = n[:-1] + ("y" if last != "y" else "z")
    out.append(("subst", sub))
    out.append(("ws-suffix", n + " "))
    return out


def plan_requests(spec, ref):
    """-> list of request dicts {kind, name, form, shape, src, [verb, path]}"""
    fam = spec["prot"]
    reqs = []
    seen = set()

    def add(kind, name, form, shape, src, **kw):
        key = (form, name, kw.get("verb"), kw.get("path"))
        if key in seen:
            return
        seen.add(key)
        if form in ("plain", "unqualified") and name in ref.prim:
            # a derived string that equals a registered name IS that name: send its arguments
            shape = shape_of(ref.meth[ref.prim[name][0]][1])
        r = {"kind": kind, "name": name, "form": form, "shape": shape, "src": src}
        r.update(kw)
        reqs.append(r)

    names = ref.names
    many = len(names) > 8
    rot = spec.get("rot", 0)
    for n in names:
        add("exact", n, "plain", shape_of(ref.meth[ref.prim[n][0]][1]), n)
    for i, n in enumerate(names):
        m = ref.meth[ref.prim[n][0]][1]
        sh = shape_of(m)
        if fam in XMLFAM:
            add("unqualified", n, "unqualified", sh, n)
        else:
            add("tns-qualified", "{%s}%s" % ("$TNS", n), "plain", sh, n)
        nm = near_misses(n)
        if many:
            k = len(nm)
            nm = [nm[(i + rot + j) % k] for j in range(3)]
        for kind, v in nm:
            if fam in XMLFAM and not NAME_RE.match(v):
                continue                       # not an XML name
            add(kind, v, "plain", sh, n)
        if not many or (i + rot) % 3 == 0:
            for of in (OTHER_FORMS if not many else OTHER_FORMS[(i + rot) % 5::5] + ("other-ns",)):
                add(of, n, of, sh, n)
        if fam in XMLFAM and (not many or (i + rot) % 3 == 1):
            cf = n.swapcase()
            if cf != n and NAME_RE.match(cf):
                add("unqualified-case", cf, "unqualified", sh, n)
        if m.get("inmsg") or m.get("op"):
            add("hidden-key", m["key"], "plain", sh, n)
    if fam in ("msgpack", "msgpackrpc"):
        # a registered name with bytes that are not valid UTF-8 around it (msgpack bin keys)
        for i, n in enumerate(names[:4]):
            sh = shape_of(ref.meth[ref.prim[n][0]][1])
            for form in ("bytes:suffix", "bytes:prefix", "bytes:inside")[i % 3:][:2]:
                add("bad-utf8", n, form, sh, n)
    if fam not in XMLFAM:
        add("empty", "", "plain", {"arg": None, "bare": False}, "")
    if fam == "http":
        for n in names[:2]:
            m = ref.meth[ref.prim[n][0]][1]
            add("exact-deep", n, "plain", shape_of(m), n, verb="GET", path="/zz/" + n)
        for fid, m, p in ref.patterns:
            sh = shape_of(m)
            addr = p.get("address") or ("/" + public_name(m))
            conc = re.sub(r"<[A-Za-z0-9_]+>|\{[A-Za-z0-9_]+\}", "q", addr)
            ph = conc != addr
            verbs = [p["verb"]] if p.get("verb") else ["GET", "DELETE"]
            n = public_name(m)
            for v in verbs:
                add("pattern", n, "pattern", sh, n, verb=v, path=conc, placeholder=ph)
            wrong = {"GET": "DELETE", "DELETE": "OPTIONS", "OPTIONS": "GET"}.get(p.get("verb"))
            if wrong:
                add("pattern-wrong-verb", n, "pattern", sh, n, verb=wrong, path=conc, placeholder=ph)
                add("pattern-verb-case", n, "pattern", sh, n, verb=p["verb"].lower(), path=conc,
                    placeholder=ph)
            if p.get("address"):
                add("pattern-extra-segment", n, "pattern", sh, n, verb=verbs[0], path=conc + "/zz",
                    placeholder=ph)
                add("pattern-trailing-slash", n, "pattern", sh, n, verb=verbs[0], path=conc + "/",
                    placeholder=ph)
                add("pattern-case", n, "pattern", sh, n, verb=verbs[0], path=conc.upper(),
                    placeholder=ph)
                add("pattern-prefix-del", n, "pattern", sh, n, verb=verbs[0], path=conc[:1] + conc[2:],
                    placeholder=ph)
    return reqs


def expectation(spec, ref, r, tns):
    fam = spec["prot"]
    name = r["name"].replace("$TNS", tns)
    if fam == "http":
        verb = r.get("verb", "GET")
        path = r.get("path")
        if path is None:
            seg = name if not r["form"].startswith("other-ns") else \
                "{%s}%s" % (other_ns(r["form"], tns), name)
            path = "/" + seg
        e = ref.http_expect(verb, path)
        if r["kind"] == "tns-qualified" and e[0] == "none":
            e2 = ref.lookup(r["src"])
            if e2[0] == "run":
                return ("maybe",) + e2[1:]
        return e
    if r["form"].startswith("other-ns") or r["form"].startswith("bytes:"):
        return ("none",)
    if r["kind"] == "tns-qualified":
        e = ref.lookup(r["src"])
        if e[0] == "run":
            return ("maybe",) + e[1:]
        return ("none",) if e[0] == "none" else e
    e = ref.lookup(name)
    if r["form"] == "unqualified" and e[0] == "run":
        return ("maybe",) + e[1:]
    return e


# -- encoders -----------------------------------------------------------------------------
def _argval(shape):
    return 7 if shape["arg"] == "int" else "v"


def encode(spec, r, tns):
    """-> bytes (server pipeline) or (verb, path, query) for http"""
    fam = spec["prot"]
    sh = r["shape"]
    name = r["name"].replace("$TNS", tns)
    if fam in XMLFAM:
        if r["form"] == "unqualified":
            open_, close = "<%s>" % name, "</%s>" % name
            child = "<a>%s</a>"
        else:
            ns = other_ns(r["form"], tns) if r["form"].startswith("other-ns") else tns
            open_, close = '<x:%s xmlns:x="%s">' % (name, ns), "</x:%s>" % name
            child = "<x:a>%s</x:a>"
        if sh["arg"] is None:
            inner = ""
        elif sh["bare"]:
            inner = str(_argval(sh))
        else:
            inner = child % _argval(sh)
        body = open_ + inner + close
        if fam != "xml":
            body = '<e:Envelope xmlns:e="%s"><e:Body>%s</e:Body></e:Envelope>' % (SOAPENV[fam], body)
        return body.encode("utf8")
    if r["form"].startswith("other-ns"):
        name = "{%s}%s" % (other_ns(r["form"], tns), name)
    if fam == "http":
        # 'a=7' is a valid query for methods without argument, with an Integer and with a Unicode
        # argument alike: a misrouted request then shows as the wrong function running
        q = "" if r.get("placeholder") else "a=7"
        path = r.get("path")
        if path is None:
            path = "/" + name
        return (r.get("verb", "GET"), path, q)
    if fam == "msgpackrpc":
        import msgpack
        params = [] if sh["arg"] is None else [_argval(sh)]
        if r["form"].startswith("bytes:"):
            b = name.encode("utf8")
            name = {"bytes:suffix": b + b"\xff", "bytes:prefix": b"\xff" + b,
                    "bytes:inside": b[:1] + b"\xc3" + b[1:]}[r["form"]]
        return msgpack.packb([0, 1, name, params])
    if sh["arg"] is None:
        doc = {name: {}}
    elif sh["bare"]:
        doc = {name: _argval(sh)}
    else:
        doc = {name: {"a": _argval(sh)}}
    if fam == "json":
        import json
        return json.dumps(doc).encode("utf8")
    if fam == "yaml":
        import yaml
        return yaml.safe_dump(doc).encode("utf8")
    import msgpack
    if r["form"].startswith("bytes:"):
        (k0, v0), = doc.items()
        b = k0.encode("utf8")
        kb = {"bytes:suffix": b + b"\xff", "bytes:prefix": b"\xff" + b,
              "bytes:inside": b[:1] + b"\xc3" + b[1:]}[r["form"]]
        return msgpack.packb({kb: v0})
    return msgpack.packb(doc)


# =====================================================================================
# live application

def _protocol(spec):
    fam = spec["prot"]
    v = spec.get("validator")
    if fam == "xml":
        from spyne.protocol.xml import XmlDocument as P
    elif fam == "soap11":
        from spyne.protocol.soap import Soap11 as P
    elif fam == "soap12":
        from spyne.protocol.soap import Soap12 as P
    elif fam == "json":
        from spyne.protocol.json import JsonDocument as P
    elif fam == "yaml":
        from spyne.protocol.yaml import YamlDocument as P
    elif fam == "msgpack":
        from spyne.protocol.msgpack import MessagePackDocument as P
    elif fam == "msgpackrpc":
        from spyne.protocol.msgpack import MessagePackRpc as P
    elif fam == "http":
        from spyne.protocol.http import HttpRpc as P
    else:
        raise ValueError(fam)
    return P(validator=v), P()


class Live(object):
    """one application built from the spec with the services listed in `order`"""

    def __init__(self, spec, order):
        from spyne import Application, Service, rpc, Integer, Unicode
        from spyne.server import ServerBase
        self.calls = []
        self.tns = "urn:c11:%d" % next(_uniq)
        self.app = None
        self.wsgi = None
        svcs = []
        for si in order:
            s = spec["services"][si]
            d = {}
            for m in s["methods"]:
                f = self._fn(fid_of(si, m))
                f.__name__ = str(m["key"])
                params = []
                kw = {"_returns": Unicode}
                if m.get("arg") is not None:
                    params = [Integer if m["arg"] == "int" else Unicode]
                    kw["_args"] = ["a"]
                else:
                    kw["_args"] = []
                if m.get("bare"):
                    kw["_body_style"] = "bare"
                if m.get("op"):
                    kw["_operation_name"] = m["op"]
                if m.get("inmsg"):
                    kw["_in_message_name"] = m["inmsg"]
                if m.get("patterns"):
                    from spyne.protocol.http import HttpPattern
                    kw["_patterns"] = [HttpPattern(p.get("address"), verb=p.get("verb"))
                                       for p in m["patterns"]]
                d[m["key"]] = rpc(*params, **kw)(f)
            if s.get("aux"):
                from spyne.auxproc.sync import SyncAuxProc
                d["__aux__"] = SyncAuxProc()
            svcs.append(type(str(s["name"]), (Service,), d))
        inp, outp = _protocol(spec)
        self.app = Application(svcs, tns=self.tns, name="C11App", in_protocol=inp,
                               out_protocol=outp)
        if spec["prot"] == "http":
            from spyne.server.wsgi import WsgiApplication
            self.wsgi = WsgiApplication(self.app)
        else:
            self.srv = ServerBase(self.app)

    def _fn(self, fid):
        calls = self.calls

        def f(ctx, *args):
            calls.append(fid)
            return fid
        return f

    def close(self):
        if self.app is not None:
            try:
                from spyne.util.appreg import unregister_application
                unregister_application(self.app)
            except Exception:
                pass

    # -- one request --------------------------------------------------------------------
    def send(self, wire):
        """-> {'ran': [fid...], 'fault': code|None, 'escaped': (type, where)|None, 'status': str|None}"""
        del self.calls[:]
        got = {"ran": None, "fault": None, "escaped": None, "status": None}
        if self.wsgi is not None:
            verb, path, q = wire
            env_ = drive.environ(method=verb, path=path, query=q, body=b"", content_type=None)
            res = drive.wsgi_call(self.wsgi, env_)
            if res.escaped is not None:
                got["escaped"] = F.exc_origin(res.escaped)
            got["status"] = res.status
            if res.status is not None and not res.status.startswith("2"):
                got["fault"] = "http-" + res.status[:3]
        else:
            self._pipeline(wire, got)
        got["ran"] = list(self.calls)
        return got

    def _pipeline(self, body, got):
        """the sequence of WsgiApplication.handle_rpc, including the auxiliary contexts"""
        from spyne import MethodContext
        from spyne.auxproc import process_contexts
        srv = self.srv
        ctx = MethodContext(srv, MethodContext.SERVER)
        ctx.in_string = [body]
        try:
            ctxs = srv.generate_contexts(ctx, None)
            p, others = ctxs[0], ctxs[1:]
            if p.in_error is None:
                srv.get_in_object(p)
            if p.in_error is None:
                srv.get_out_object(p)
            else:
                p.out_error = p.in_error
            srv.get_out_string(p)
            b"".join(p.out_string)
            err = p.out_error if p.out_error is not None else p.in_error
            process_contexts(srv, others, p, error=err)
            p.close()
            if err is not None:
                got["fault"] = str(getattr(err, "faultcode", "?"))
        except Exception as e:
            got["escaped"] = F.exc_origin(e)


def is_client_fault(got):
    f = got["fault"]
    if f is None:
        return False
    if f.startswith("http-"):
        return f.startswith("http-4")
    return f == "Client" or f.startswith("Client.")


def fault_class(got):
    if got["escaped"] is not None:
        return "escaped:%s:%s" % got["escaped"]
    if got["fault"] is None:
        return "no-fault"
    f = got["fault"]
    if re.match(r"^[A-Za-z0-9_.\-]{1,60}$", f):
        return f
    return "other"


def outcome_key(got):
    if got["escaped"] is not None:
        fc = "escaped"
    elif got["fault"] is None:
        fc = "ok"
    elif is_client_fault(got):
        fc = "client"
    else:
        fc = "server"
    return (tuple(sorted(got["ran"])), fc)


# =====================================================================================
# judging

def family_of(spec, ref):
    if spec["prot"] == "http" and ref.has_patterns:
        return "http-pattern"
    return spec["prot"]


def judge(spec, ref, fam, r, exp, got, where):
    fails = []
    ran = got["ran"]
    name = r["name"]
    desc = "%s: request kind=%s name=%r form=%s%s -> ran %r, %s" % (
        where, r["kind"], name, r["form"],
        (" %s %s" % (r.get("verb"), r.get("path"))) if r.get("path") else "",
        ran, fault_class(got))

    def check_not_found():
        if got["escaped"] is not None or not is_client_fault(got):
            fails.append(("C11|not-found-wrong-fault|%s|%s" % (fam, fault_class(got)),
                          desc + "; the name is not registered: expected a not-found Client fault"))

    local = name.split("}")[-1]
    by_address = r["form"] == "pattern" and r["path"].count("/") != 1
    if r["form"] == "pattern" and not by_address:
        local = r["path"][1:]
    if exp[0] == "none":
        if ran:
            how = how_differs(local, r["form"], ref.public_of(ran[0]))
            if by_address:
                how = r["kind"]          # the request names an address, not a method name
            fails.append(("C11|near-miss-invoked|%s|%s" % (fam, how),
                          desc + "; the name is not registered (registered: %r)" % (ref.names,)))
        else:
            check_not_found()
        return fails
    if exp[0] == "dup":
        cands, aux = exp[1], exp[2]
        others = [f for f in ran if f not in cands and f not in aux]
        if others or len([f for f in ran if f in cands]) > 1:
            fails.append(("C11|extra-function-ran|%s|%s" % (fam, "same"),
                          desc + "; candidates for the clashing name are %r" % (cands,)))
        return fails
    prim, aux = exp[1], exp[2]
    want = sorted([prim] + list(aux))
    if sorted(ran) == want:
        return fails
    if exp[0] == "maybe" and not ran:
        check_not_found()
        return fails
    others = [f for f in ran if f != prim and f not in aux]
    rel = how_differs(local, r["form"], ref.public_of(others[0])) if others else None
    if others and by_address:
        rel = r["kind"]
    if prim not in ran:
        if others:
            fails.append(("C11|wrong-function|%s|%s" % (fam, rel),
                          desc + "; expected %r" % (want,)))
        elif exp[0] == "run":
            how = exp[3] if got["escaped"] is None else fault_class(got)
            fails.append(("C11|registered-not-routed|%s|%s" % (fam, how),
                          desc + "; registered through its %s; expected %r" % (exp[3], want)))
        return fails
    if others:
        fails.append(("C11|extra-function-ran|%s|%s" % (fam, rel), desc + "; expected %r" % (want,)))
    elif ran.count(prim) != 1:
        fails.append(("C11|invoked-more-than-once|%s" % fam, desc + "; expected %r" % (want,)))
    else:
        fails.append(("C11|auxiliary-set-differs|%s" % fam, desc + "; expected %r" % (want,)))
    return fails


def perm_class(order):
    n = len(order)
    ident = list(range(n))
    if list(order) == ident:
        return "identity"
    if list(order) == ident[::-1]:
        return "reversed"
    for k in range(1, n):
        if list(order) == ident[k:] + ident[:k]:
            return "rotation"
    return "other"


def orders_of(spec):
    n = len(spec["services"])
    perms = spec.get("perms", "all")
    if perms == "all":
        return [list(p) for p in itertools.permutations(range(n))]
    out = [list(range(n))]
    for p in perms:
        p = list(p)
        if sorted(p) == list(range(n)) and p not in out:
            out.append(p)
    return out


def run_case(case, rec):
    spec = case
    ref = Ref(spec)
    fam = family_of(spec, ref)
    nsvc = len(spec["services"])
    all_fails = []
    if ref.type_name_clash():
        rec.case(case, classes=["spec:message-name-clash-skipped"])
        return all_fails
    reqs = plan_requests(spec, ref)
    dup = bool(ref.dups)
    excusable = ref.type_name_clash() or ref.method_key_clash()
    base_ctor = None
    base_out = None
    dup_reported = False
    napps = 0
    for order in orders_of(spec):
        pc = perm_class(order)
        where = "%s order=%r" % (spec["prot"], order)
        live = None
        try:
            live = Live(spec, order)
            ctor = "ok"
            ctor_exc = None
        except Exception as e:
            ctor_exc = e
            ctor = "raised"
        napps += 1
        cfails = []
        if ctor == "ok" and dup and not dup_reported:
            dup_reported = True
            for n in ref.dups:
                cfails.append(("C11|duplicate-name-accepted|%s" % ref.clash_kind(n),
                               "%s: Application(...) accepted a spec in which %r all answer to the "
                               "public name %r" % (where, ref.prim[n], n)))
        if base_ctor is None:
            base_ctor = ctor
        elif ctor != base_ctor:
            et, wh = F.exc_origin(ctor_exc) if ctor_exc is not None else ("none", "-")
            cfails.append(("C11|order-dependent|construction",
                           "%s: Application(...) %s (%s at %s: %s) but for order %r it %s; services: %r"
                           % (where, ctor, et, wh, ctor_exc, list(range(nsvc)), base_ctor,
                              [(s["name"], bool(s.get("aux"))) for s in spec["services"]])))
        if ctor != "ok":
            if dup:
                lab = "ctor:rejected-duplicate"
            elif excusable:
                lab = "ctor:rejected-excusable"
            else:
                lab = "ctor:rejected-unpredicted:%s" % type(ctor_exc).__name__
            rec.case(case, failures=cfails, classes=[lab, "fam:" + fam, "perm:" + pc])
            all_fails.extend(cfails)
            continue
        if cfails:
            rec.case(case, failures=cfails, classes=["ctor:accepted-duplicate"])
            all_fails.extend(cfails)
        outs = []
        try:
            for i, r in enumerate(reqs):
                exp = expectation(spec, ref, r, live.tns)
                got = live.send(encode(spec, r, live.tns))
                fails = judge(spec, ref, fam, r, exp, got, where)
                ok = outcome_key(got)
                outs.append(ok)
                if base_out is not None and i < len(base_out) and base_out[i] != ok:
                    fails.append(("C11|order-dependent|%s" % fam,
                                  "%s: request kind=%s name=%r gave %r but %r with the services in "
                                  "spec order" % (where, r["kind"], r["name"], ok, base_out[i])))
                pname = r["name"].split("}")[-1]
                rel = nearest_relation(pname, ref.names)
                nt = None
                if ref.similar and (exp[0] == "none" or rel != "far"):
                    nt = [fam, rel, r["kind"], nsvc, pc]
                rec.case(case, failures=fails, nontrivial=nt,
                         classes=["fam:" + fam, "kind:" + r["kind"], "rel:" + rel,
                                  "expect:" + exp[0], "perm:" + pc, "nsvc:%d" % nsvc,
                                  "nontrivial:" + ("yes" if nt else "no")])
                all_fails.extend(fails)
        finally:
            live.close()
        if base_out is None:
            base_out = outs
    build.clear_memo()      # spyne's @memoize tables keep every message class of every case alive
    rec.count("applications_built", napps)
    rec.count("specs", 1)
    if dup:
        rec.count("specs_with_clashing_names", 1)
    return all_fails


# =====================================================================================
# generation

def variants(stem):
    s = stem
    v = [s, s.lower(), s.upper(), s[:1].upper() + s[1:], s.swapcase(),
         s + "x", "x" + s, s + "X", s + "_", "_" + s, s + "0", s + "Result", s + "Response",
         s + "Request", s[:-1], s[1:], s + ".b", "a." + s, s + "-b", s + "_b"]
    for ch in "._-":
        if ch in s:
            v += [s.replace(ch, "X"), s.replace(ch, ""), s.replace(ch, "_"), s.replace(ch, "."),
                  s.replace(ch, "-")]
    out = []
    for x in v:
        if x and NAME_RE.match(x) and x not in out:
            out.append(x)
    return out


def _no_incidental_clash(spec):
    return not Ref(spec).type_name_clash()


@st.composite
def specs(draw, tier="quick"):
    prot = draw(st.sampled_from(PROTS))
    if prot in XMLFAM:
        validator = draw(st.sampled_from([None, "soft", "lxml"]))
    else:
        validator = draw(st.sampled_from([None, "soft"]))
    nsvc = draw(st.sampled_from([2, 2, 2, 3, 3, 3, 4, 4, 5, 6]))
    want_aux = nsvc >= 3 and draw(st.integers(0, 5)) == 0
    nprim = nsvc - 1 if want_aux else nsvc
    sizes = [draw(st.sampled_from([1, 1, 2, 2, 2, 3, 3, 4, 5, 6])) for _ in range(nprim)]
    stems = draw(st.lists(st.sampled_from(STEMS), min_size=1, max_size=2, unique=True))
    pool = []
    for s in stems:
        for x in variants(s):
            if x not in pool:
                pool.append(x)
    total = sum(sizes)
    ncustom = draw(st.integers(0, min(3, total)))
    need = total + ncustom
    i = 0
    while len(pool) < need + 2:
        pool.append("%s%d" % (stems[0].replace(".", "").replace("-", ""), 10 + i))
        i += 1
    names = draw(st.lists(st.sampled_from(pool), min_size=need, max_size=need, unique=True))
    keys, customs = names[:total], names[total:]
    services = []
    k = 0
    flat = []
    for si, sz in enumerate(sizes):
        ms = []
        for _ in range(sz):
            m = {"key": keys[k]}
            k += 1
            arg = draw(st.sampled_from([None, None, "int", "str"]))
            if arg is not None:
                m["arg"] = arg
                if prot in BARE_OK and draw(st.integers(0, 3)) == 0:
                    m["bare"] = True
            ms.append(m)
            flat.append((si, m))
        services.append({"name": "Svc%d" % si, "methods": ms})
    # custom public names
    for cname in customs:
        si, m = flat[draw(st.integers(0, len(flat) - 1))]
        if m.get("op") or m.get("inmsg"):
            continue
        m[draw(st.sampled_from(["op", "inmsg"]))] = cname
    # HttpPatterns
    if prot == "http" and draw(st.booleans()):
        verbs = [None, "GET", "DELETE", "OPTIONS"]
        for j, (si, m) in enumerate(flat):
            c = draw(st.integers(0, 5))
            ps = []
            if c == 0:
                ps.append({"address": None, "verb": draw(st.sampled_from(verbs))})
            elif c == 1:
                ps.append({"address": "/p%d/q%s" % (j, draw(st.sampled_from(["", "r", "x"]))),
                           "verb": draw(st.sampled_from(verbs))})
            elif c == 2 and m.get("arg") == "str":
                ps.append({"address": draw(st.sampled_from(["/p%d/<a>", "/p%d/{a}/t", "/p%d/r/<a>"])) % j,
                           "verb": draw(st.sampled_from(verbs))})
            elif c == 3:
                ps.append({"address": "/p%d/q" % j, "verb": "GET"})
                ps.append({"address": "/p%d/w" % j, "verb": "DELETE"})
            if ps:
                m["patterns"] = ps
    # a deliberate clash: two primaries answering to one public name
    if draw(st.integers(0, 3)) == 0 and len(flat) >= 2:
        ia = draw(st.integers(0, len(flat) - 1))
        ib = draw(st.integers(0, len(flat) - 2))
        if ib >= ia:
            ib += 1
        (sa, a), (sb, b) = flat[ia], flat[ib]
        how = draw(st.sampled_from(["key", "inmsg", "op", "inmsg", "op"]))
        tgt = public_name(a)
        if how == "key" and sa != sb and not b.get("op") and not b.get("inmsg") and \
                all(x["key"] != tgt for x in services[sb]["methods"]):
            b["key"] = tgt
        elif how != "key" or sa == sb:
            b.pop("op", None)
            b.pop("inmsg", None)
            if b["key"] != tgt:
                b["inmsg" if how == "key" else how] = tgt
        style = draw(st.sampled_from(["asis", "bare", "bare"]))
        if style == "bare" and prot in BARE_OK:
            for x in (a, b):
                x["arg"] = x.get("arg") or "int"
                x["bare"] = True
    # same-named service classes
    if draw(st.integers(0, 7)) == 0:
        j = draw(st.integers(1, len(services) - 1))
        services[j]["name"] = services[draw(st.integers(0, j - 1))]["name"]
    # an auxiliary service shadowing some primaries
    if want_aux:
        cands = []
        for si, m in flat:
            n = public_name(m)
            if n not in [c["key"] for c in cands]:
                c = {"key": n}
                if m.get("arg"):
                    c["arg"] = m["arg"]
                if m.get("bare"):
                    c["bare"] = True
                cands.append(c)
        pick = draw(st.lists(st.integers(0, len(cands) - 1), min_size=1, max_size=min(3, len(cands)),
                             unique=True))
        auxsvc = {"name": "Aux%d" % len(services), "aux": True,
                  "methods": [cands[i] for i in sorted(pick)]}
        services.insert(draw(st.integers(0, len(services))), auxsvc)
    n = len(services)
    spec = {"prot": prot, "validator": validator, "services": services,
            "rot": draw(st.integers(0, 10))}
    full = 4 if tier == "thorough" else 3
    if n <= full:
        spec["perms"] = "all"
    else:
        k = 5 if n == 4 else 3
        ps = [list(range(n))[::-1]]
        for _ in range(k):
            ps.append(list(draw(st.permutations(list(range(n))))))
        spec["perms"] = ps
    return spec


# -- the enumerated sub-domain ---------------------------------------------------------------
def _svc(name, *methods, **kw):
    d = {"name": name, "methods": [dict(m) for m in methods]}
    d.update(kw)
    return d


def _m(key, arg=None, **kw):
    d = {"key": key}
    if arg:
        d["arg"] = arg
    d.update(kw)
    return d


def fixed_specs(prot):
    bare_ok = prot in BARE_OK
    out = []

    def add(services, **kw):
        s = {"prot": prot, "validator": kw.pop("validator", None), "services": services,
             "perms": "all", "rot": 0}
        s.update(kw)
        out.append(s)

    add([_svc("A", _m("get"), _m("Get", "int")), _svc("B", _m("GET", "str"), _m("gEt")),
         _svc("C", _m("getx"))])
    add([_svc("A", _m("m0"), _m("m0x", "int")), _svc("B", _m("xm0"), _m("m0Result", "str")),
         _svc("C", _m("m0_"), _m("_m0"), _m("m"))], validator="soft")
    add([_svc("A", _m("a.b"), _m("aXb")), _svc("B", _m("a_b", "int"), _m("a-b")),
         _svc("C", _m("ab"), _m("a.b.c"))],
        validator="lxml" if prot in XMLFAM else None)
    add([_svc("A", _m("k0", inmsg="alpha"), _m("k1", "int", op="Alpha")),
         _svc("B", _m("alpha_"), _m("k2", "str", inmsg="alphax")), _svc("C", _m("k3", op="k0x"))])
    add([_svc("P", _m("m0"), _m("m1", "int")), _svc("A1", _m("m0"), aux=True),
         _svc("Q", _m("M0"), _m("m2"))])
    add([_svc("P", _m("m0"), _m("m1", "int")), _svc("A1", _m("m0"), aux=True),
         _svc("A2", _m("m0"), _m("m1", "int"), aux=True)])
    # clashes: wrapped styles
    add([_svc("A", _m("m0")), _svc("B", _m("m0"))])
    add([_svc("A", _m("m0")), _svc("B", _m("m1", inmsg="m0"), _m("M0"))])
    add([_svc("A", _m("m0")), _svc("B", _m("m1", op="m0"), _m("m0x"))])
    if bare_ok:
        add([_svc("A", _m("b0", "int", bare=True), _m("B0", "str", bare=True)),
             _svc("B", _m("b0x"), _m("k9", "int", bare=True, inmsg="b0_"))])
        add([_svc("A", _m("m0", "int", bare=True), _m("m1", "int", bare=True, inmsg="m0"),
                  _m("M0", "int")), _svc("B", _m("m0x"))])
        add([_svc("A", _m("m0", "int", bare=True), _m("m0x")),
             _svc("A", _m("m1", "int", bare=True, inmsg="m0"), _m("M0"))])
        add([_svc("A", _m("m0", "int", bare=True)), _svc("B", _m("m0", "int", bare=True))])
        add([_svc("A", _m("m0", "str", bare=True)), _svc("B", _m("m1", "str", bare=True, op="m0"))])
        add([_svc("A", _m("k0", "int", bare=True, inmsg="z0"), _m("k1", "int", bare=True, op="z0"),
                  _m("Z0")), _svc("B", _m("z0x"))])
        add([_svc("A", _m("k0", "str", bare=True, inmsg="z0"), _m("z0x")),
             _svc("A", _m("k1", "str", bare=True, inmsg="z0"), _m("Z0"))])
        add([_svc("A", _m("m0"), _m("m1", "int", bare=True, inmsg="m0")), _svc("B", _m("M0"))])
        add([_svc("A", _m("k0", "int", bare=True, op="z0"), _m("Z0")), _svc("A", _m("z0"), _m("z0x"))])
        add([_svc("A", _m("m0", "int", bare=True), _m("m0x")), _svc("A", _m("m0", "int", bare=True))])
    if prot == "http":
        add([_svc("A", _m("d.e", patterns=[{"address": None, "verb": "GET"}]), _m("dXe"),
                  _m("m0", patterns=[{"address": "/p0/q", "verb": "GET"}])),
             _svc("B", _m("m1", "str", patterns=[{"address": "/p1/<a>", "verb": "GET"},
                                                 {"address": "/p2/{a}/t", "verb": "DELETE"}]),
                  _m("M0", patterns=[{"address": "/p0/q", "verb": "DELETE"}])),
             _svc("C", _m("f.g", patterns=[{"address": None, "verb": None}]), _m("q"))])
        add([_svc("A", _m("m0", patterns=[{"address": "/p0/qr", "verb": None}]), _m("m0x")),
             _svc("B", _m("xm0", "int", patterns=[{"address": "/p1/q", "verb": "OPTIONS"}]))])
    return out


def shards(tier):
    if tier == "quick":
        out = [{"kind": "hyp", "i": i, "n": 120} for i in range(16)]
    else:
        out = [{"kind": "hyp", "i": i, "n": 350} for i in range(64)]
    for p in PROTS:
        out.append({"kind": "enum", "prot": p})
    return out


def run_shard(shard, rec):
    if shard["kind"] == "enum":
        for spec in fixed_specs(shard["prot"]):
            run_case(spec, rec)
        return
    rec.hyp(specs(rec.tier).filter(_no_incidental_clash), lambda case: run_case(case, rec),
            shard["n"])


class _NullRec(object):
    tier = "quick"

    def case(self, *a, **k):
        pass

    def count(self, *a, **k):
        pass


def replay(case):
    fails = run_case(case, _NullRec())
    seen, out = set(), []
    for s, m in fails:
        if s not in seen:
            seen.add(s)
            out.append((s, m))
    return out
