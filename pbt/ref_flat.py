"""Reference flattening for HttpRpc (documented notation: a.b.c, a[0].b, repeated keys for
primitive arrays, 'empty' for an empty array of objects, percent-encoding).  No spyne imports."""
import base64
import urllib.parse

from . import jv, lex
from .spec import PRIM_KIND


def leaf_text(t, v):
    kind = PRIM_KIND[t["t"]]
    n = jv.dec(v)
    if kind == "int":
        return str(n)
    if kind == "dec":
        return lex.print_decimal(n)
    if kind == "double":
        return repr(float(n))
    if kind == "bool":
        return "true" if n else "false"
    if kind == "text":
        return n
    if kind == "dt":
        return lex.print_datetime(n)
    if kind == "date":
        return n.isoformat()
    if kind == "time":
        return lex.print_time(n)
    if kind == "td":
        return lex.print_duration(n)
    if kind == "uuid":
        return str(n)
    if kind == "bytes":
        enc = t.get("f", {}).get("encoding")
        if enc == "hex":
            return n.hex()
        if enc == "base64":
            return base64.b64encode(n).decode("ascii")
        return base64.urlsafe_b64encode(n).decode("ascii")
    raise ValueError(kind)


class Flat(object):
    def __init__(self, U, delim="."):
        self.U = U
        self.delim = delim
        self.cspec = {c["name"]: c for c in U["classes"]}

    def fields(self, cname):
        c = self.cspec[cname]
        out = []
        if c["extends"] is not None:
            out.extend(self.fields(c["extends"]))
        out.extend(c["fields"])
        return out

    def flatten(self, key, t, v, out, index_map=None):
        """append (key, text) pairs for value v of slot t under path `key`"""
        if v is None:
            return
        occ = t.get("occ") or {}
        multi = occ.get("max", 1) != 1
        if multi or t["k"] == "array":
            inner = dict(t, occ=dict(occ, max=1)) if multi else t["of"]
            if inner["k"] in ("prim", "enum"):
                for x in v:
                    out.append((key, self.text(inner, x)))
            else:
                if len(v) == 0:
                    out.append((key, "empty"))
                for i, x in enumerate(v):
                    j = i if index_map is None else index_map(i)
                    self.flatten("%s[%d]" % (key, j), inner, x, out, index_map)
            return
        k = t["k"]
        if k in ("prim", "enum"):
            out.append((key, self.text(t, v)))
        elif k == "ref":
            for fn, ft in self.fields(v.get("$obj", t["n"])):
                self.flatten(key + self.delim + fn, ft, v["f"].get(fn), out, index_map)
        else:
            raise ValueError(k)

    def text(self, t, x):
        if t["k"] == "enum":
            return x
        return leaf_text(t, x)

    def request_pairs(self, m, args, index_map=None):
        out = []
        for (an, t), v in zip(m["args"], args):
            self.flatten(an, t, v, out, index_map)
        return out


def query_string(pairs):
    q = urllib.parse.quote
    return "&".join("%s=%s" % (q(k, safe="[]"), q(v, safe="")) for k, v in pairs)


def prune(U, t, v):
    """expected value after the identifications a flat key/value form forces: an object
    with no leaf anywhere and an empty primitive array are indistinguishable from absence"""
    cs = {c["name"]: c for c in U["classes"]}

    def fields(n):
        c = cs[n]
        return (fields(c["extends"]) if c["extends"] else []) + c["fields"]

    def go(t, v):
        if v is None:
            return None
        occ = t.get("occ") or {}
        multi = occ.get("max", 1) != 1
        if multi or t["k"] == "array":
            inner = dict(t, occ=dict(occ, max=1)) if multi else t["of"]
            if inner["k"] in ("prim", "enum"):
                return list(v) if len(v) else None
            # an array of objects keeps its length (each index is spelled out), but an
            # element without any leaf cannot be spelled: such values are not generated
            return [go(inner, x) if go(inner, x) is not None else {"$obj": x.get("$obj", inner["n"]), "f": {}}
                    for x in v]
        if t["k"] in ("prim", "enum"):
            return v
        cname = v.get("$obj", t["n"])
        f = {}
        for fn, ft in fields(cname):
            x = go(ft, v["f"].get(fn))
            if x is not None:
                f[fn] = x
        if not f:
            return None
        return {"$obj": cname, "f": f}
    return go(t, v)


def has_leaf(U, t, v):
    return prune(U, t, v) is not None
