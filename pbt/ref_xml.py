"""Schema-driven reference XML codec.

`SchemaModel` is a small, independent reading of the XML Schema documents an application
publishes (names, namespaces, order, occurrence, nillability, extension, attributes,
simple-type bases).  `encode` writes a value (tagged JSON + type reference of the spec) as
an element *denoting that value under that schema*; `decode` reads an element back into
plain native values (RefObj for objects).  Leaf text is produced/parsed by pbt.lex only.
Nothing in here calls spyne's protocol code.
"""
import decimal
import uuid as uuidm

from lxml import etree

from . import jv, lex
from .spec import PRIM_KIND

XS = "http://www.w3.org/2001/XMLSchema"
XSI = "http://www.w3.org/2001/XMLSchema-instance"
NIL = "{%s}nil" % XSI
XSI_TYPE = "{%s}type" % XSI


def q(ns, name):
    return "{%s}%s" % (ns, name)


class RefObj(object):
    def __init__(self, cname):
        self._cname = cname

    def __repr__(self):
        return "RefObj(%s, %r)" % (self._cname, {k: v for k, v in self.__dict__.items()
                                                 if k != "_cname"})


class SchemaModel(object):
    def __init__(self, schema_docs):
        """schema_docs: iterable of xs:schema root elements"""
        self.ctypes = {}    # (ns,name) -> dict(base, elements, attributes, simple_base)
        self.stypes = {}    # (ns,name) -> base qname tuple
        self.elements = {}  # (ns,name) -> type qname tuple
        for doc in schema_docs:
            tns = doc.get("targetNamespace")
            qualified = doc.get("elementFormDefault") == "qualified"
            for ct in doc.findall(q(XS, "complexType")):
                self.ctypes[(tns, ct.get("name"))] = self._ctype(ct, tns, qualified)
            for stp in doc.findall(q(XS, "simpleType")):
                r = stp.find(q(XS, "restriction"))
                base = self._qn(r, r.get("base")) if r is not None else (XS, "string")
                if stp.find(q(XS, "list")) is not None:
                    base = (XS, "string")
                self.stypes[(tns, stp.get("name"))] = base
            for el in doc.findall(q(XS, "element")):
                self.elements[(tns, el.get("name"))] = self._qn(el, el.get("type"))

    @staticmethod
    def _qn(node, text):
        if text is None:
            return None
        if ":" in text:
            p, n = text.split(":", 1)
            return (node.nsmap.get(p), n)
        return (node.nsmap.get(None), text)

    def _ctype(self, ct, tns, qualified):
        out = {"base": None, "elements": [], "attributes": [], "simple_base": None}
        body = ct
        cc = ct.find(q(XS, "complexContent"))
        sc = ct.find(q(XS, "simpleContent"))
        if cc is not None:
            ext = cc.find(q(XS, "extension"))
            out["base"] = self._qn(ext, ext.get("base"))
            body = ext
        elif sc is not None:
            ext = sc.find(q(XS, "extension"))
            out["simple_base"] = self._qn(ext, ext.get("base"))
            body = ext
        seq = body.find(q(XS, "sequence"))
        if seq is not None:
            for el in seq.iter(q(XS, "element")):
                mx = el.get("maxOccurs", "1")
                tq = self._qn(el, el.get("type"))
                if tq is None:
                    r = el.find("%s/%s" % (q(XS, "simpleType"), q(XS, "restriction")))
                    if r is not None:
                        tq = self._qn(r, r.get("base"))
                out["elements"].append({
                    "name": el.get("name"), "ns": tns if qualified else None,
                    "type": tq,
                    "min": int(el.get("minOccurs", "1")),
                    "max": None if mx == "unbounded" else int(mx),
                    "nillable": el.get("nillable") in ("true", "1"),
                    "choice": el.getparent().tag == q(XS, "choice"),
                })
        for at in body.findall(q(XS, "attribute")):
            atq = self._qn(at, at.get("type"))
            if atq is None:
                r = at.find("%s/%s" % (q(XS, "simpleType"), q(XS, "restriction")))
                if r is not None:
                    atq = self._qn(r, r.get("base"))
            out["attributes"].append({"name": at.get("name"),
                                      "type": atq,
                                      "use": at.get("use")})
        return out

    def all_elements(self, tq):
        ct = self.ctypes[tq]
        out = []
        if ct["base"] is not None and ct["base"] in self.ctypes:
            out.extend(self.all_elements(ct["base"]))
        out.extend(ct["elements"])
        return out

    def all_attributes(self, tq):
        ct = self.ctypes[tq]
        out = []
        if ct["base"] is not None and ct["base"] in self.ctypes:
            out.extend(self.all_attributes(ct["base"]))
        out.extend(ct["attributes"])
        return out

    def builtin_of(self, tq):
        """resolve a simple type name to the xs: builtin it restricts"""
        seen = 0
        while tq is not None and tq[0] != XS and seen < 20:
            tq = self.stypes.get(tq)
            seen += 1
        return tq[1] if tq is not None else None

    def is_complex(self, tq):
        return tq in self.ctypes


# ---------------------------------------------------------------------------
# leaf text
def leaf_text(kind, v, builtin=None, variant=0):
    """native leaf value -> XSD literal (variant picks among equivalent spellings)"""
    if kind == "int":
        return str(v)
    if kind == "dec":
        return lex.print_decimal(v)
    if kind == "double":
        return lex.print_double(v)
    if kind == "bool":
        return ("true", "false", "1", "0")[(0 if v else 1) + (2 if variant % 2 else 0)]
    if kind == "text":
        return v
    if kind == "dt":
        return lex.print_datetime(v, z_for_utc=bool(variant % 2))
    if kind == "date":
        return v.isoformat()
    if kind == "time":
        return lex.print_time(v)
    if kind == "td":
        return lex.print_duration(v)
    if kind == "uuid":
        return str(v)
    if kind == "bytes":
        if builtin == "hexBinary":
            return v.hex().upper() if variant % 2 else v.hex()
        import base64
        return base64.b64encode(v).decode("ascii")
    raise ValueError(kind)


def leaf_parse(kind, text, builtin=None):
    if text is None:
        text = ""
    if kind == "int":
        return lex.parse_integer(text)
    if kind == "dec":
        return lex.parse_decimal(text)
    if kind == "double":
        return lex.parse_double(text)
    if kind == "bool":
        return lex.parse_boolean(text)
    if kind == "text":
        return text
    if kind == "dt":
        return lex.parse_datetime(text)
    if kind == "date":
        return lex.parse_date(text)
    if kind == "time":
        return lex.parse_time(text)
    if kind == "td":
        return lex.parse_duration(text)
    if kind == "uuid":
        return uuidm.UUID(text.strip())
    if kind == "bytes":
        if builtin == "hexBinary":
            return lex.parse_hex(text)
        return lex.parse_base64(text)
    raise ValueError(kind)


# ---------------------------------------------------------------------------
class Codec(object):
    def __init__(self, model, U, variant=0, nil_for_none=None):
        self.m = model
        self.U = U
        self.cspec = {c["name"]: c for c in U["classes"]}
        self.variant = variant
        # None: omit when minOccurs=0 else nil;  True: prefer xsi:nil when nillable
        self.nil_for_none = nil_for_none

    def fields(self, cname):
        c = self.cspec[cname]
        out = []
        if c["extends"] is not None:
            out.extend(self.fields(c["extends"]))
        out.extend(c["fields"])
        return out

    # ---- encoding
    def encode_members(self, parent, tq, members, values):
        """members: [(name, tref)] of the spec; values: {name: json}; tq: complexType"""
        mdict = dict((n, t) for n, t in members)
        for a in self.m.all_attributes(tq):
            t = mdict.get(a["name"])
            if t is None:
                continue
            v = values.get(a["name"])
            if v is not None:
                inner = t["of"] if t["k"] == "attr" else t
                parent.set(a["name"], self.leaf(inner, v, a["type"]))
        for e in self.m.all_elements(tq):
            t = mdict.get(e["name"])
            if t is None:
                continue
            if t["k"] == "attr":
                continue
            v = values.get(e["name"])
            self.encode_slot(parent, e, t, v)

    def encode_slot(self, parent, e, t, v):
        tag = q(e["ns"], e["name"]) if e["ns"] else e["name"]
        multi = e["max"] is None or e["max"] > 1
        if v is None or (multi and v == []):
            if e["min"] == 0 and not (self.nil_for_none and e["nillable"] and not multi):
                return
            if e["nillable"]:
                el = etree.SubElement(parent, tag)
                el.set(NIL, "true")
                return
            raise ValueError("value None for mandatory non-nillable element %s" % tag)
        if multi:
            t1 = dict(t, occ=dict(t.get("occ") or {}, max=1))
            for x in v:
                if x is None:
                    el = etree.SubElement(parent, tag)
                    el.set(NIL, "true")
                else:
                    self.encode_value(etree.SubElement(parent, tag), e["type"], t1, x)
            return
        self.encode_value(etree.SubElement(parent, tag), e["type"], t, v)

    def encode_value(self, el, tq, t, v):
        k = t["k"]
        if k in ("prim", "enum"):
            el.text = self.leaf(t, v, tq)
        elif k == "ref":
            cname = v.get("$obj", t["n"])
            ctq = tq
            if cname != t["n"]:
                c = self.cspec[cname]
                ctq = (c["ns"], c.get("type_name") or cname)
                el.set(XSI_TYPE, self.qname_text(el, ctq))
            self.encode_members(el, ctq, self.fields(cname), v["f"])
        elif k == "array":
            inner = self.m.all_elements(tq)
            assert len(inner) == 1, "array wrapper %r has %d members" % (tq, len(inner))
            e = inner[0]
            tag = q(e["ns"], e["name"]) if e["ns"] else e["name"]
            for x in v:
                sub = etree.SubElement(el, tag)
                if x is None:
                    sub.set(NIL, "true")
                else:
                    self.encode_value(sub, e["type"], t["of"], x)
        else:
            raise ValueError(k)

    def qname_text(self, el, tq):
        ns, name = tq
        for p, u in el.nsmap.items():
            if u == ns and p is not None:
                return "%s:%s" % (p, name)
        raise ValueError("no prefix bound for %r (create roots with Codec.root)" % ns)

    def root(self, tag, prefixes=("p%d",)):
        """root element binding a prefix for every namespace of the universe"""
        pat = prefixes[self.variant % len(prefixes)]
        nsmap = {pat % i: ns for i, ns in enumerate(self.U["nss"])}
        nsmap["xsi"] = XSI
        return etree.Element(tag, nsmap=nsmap)

    def leaf(self, t, v, tq):
        if t["k"] == "enum":
            return v
        kind = PRIM_KIND[t["t"]]
        builtin = self.m.builtin_of(tq) if tq is not None else None
        if kind == "bytes" and builtin not in ("hexBinary", "base64Binary"):
            builtin = "base64Binary"
        return leaf_text(kind, jv.dec(v), builtin, self.variant)

    # ---- decoding
    def decode_members(self, el, tq, members, cname):
        obj = RefObj(cname)
        mdict = dict((n, t) for n, t in members)
        by_tag = {}
        for ch in el:
            if not isinstance(ch.tag, str):
                continue
            by_tag.setdefault(ch.tag, []).append(ch)
        for a in self.m.all_attributes(tq):
            t = mdict.get(a["name"])
            if t is None:
                continue
            raw = el.get(a["name"])
            inner = t["of"] if t["k"] == "attr" else t
            setattr(obj, a["name"], None if raw is None else self.parse_leaf(inner, raw, a["type"]))
        for e in self.m.all_elements(tq):
            t = mdict.get(e["name"])
            if t is None or t["k"] == "attr":
                continue
            tag = q(e["ns"], e["name"]) if e["ns"] else e["name"]
            found = by_tag.get(tag, [])
            multi = e["max"] is None or e["max"] > 1
            if multi:
                t1 = dict(t, occ=dict(t.get("occ") or {}, max=1))
                setattr(obj, e["name"], [self.decode_value(c, e["type"], t1) for c in found] or None)
            else:
                if len(found) > 1:
                    raise lex.LexError("element %s occurs %d times" % (tag, len(found)))
                setattr(obj, e["name"], self.decode_value(found[0], e["type"], t) if found else None)
        return obj

    def decode_value(self, el, tq, t):
        if el.get(NIL) in ("true", "1"):
            return None
        k = t["k"]
        if k == "prim":
            return self.parse_leaf(t, el.text, tq)
        if k == "enum":
            return el.text
        if k == "ref":
            cname = t["n"]
            xt = el.get(XSI_TYPE)
            ctq = tq
            if xt is not None:
                p, _, n = xt.rpartition(":")
                ns = el.nsmap.get(p or None)
                if ns is None:
                    raise lex.LexError("xsi:type %r: prefix not bound in the document" % xt)
                ctq = (ns, n)
                if ctq not in self.m.ctypes:
                    raise lex.LexError("xsi:type %r names no schema type" % xt)
                names = [c["name"] for c in self.U["classes"]
                         if (c["ns"], c.get("type_name") or c["name"]) == ctq]
                if not names:
                    raise lex.LexError("xsi:type %r is not a class of the universe" % xt)
                cname = names[0]
            return self.decode_members(el, ctq, self.fields(cname), cname)
        if k == "array":
            inner = self.m.all_elements(tq)
            e = inner[0]
            return [self.decode_value(c, e["type"], t["of"]) for c in el
                    if isinstance(c.tag, str)]
        raise ValueError(k)

    def parse_leaf(self, t, text, tq):
        kind = PRIM_KIND[t["t"]]
        builtin = self.m.builtin_of(tq) if tq is not None else None
        return leaf_parse(kind, text, builtin)
