"""Tiered, sharded, seeded search loop shared by all property modules.

A property module (pbt/props/cXX.py) exposes

    PROPERTY = 'Cxx'
    RULE = '...'                         # how cases are generated; what is non-trivial
    ASSUMPTIONS = [...]
    def shards(tier) -> [shard dict]     # JSON-able work items (spread over the pool)
    def run_shard(shard, rec)            # execute one; report through `rec`
    def replay(case) -> [(signature, message)]   # Hypothesis-free re-run of one case

`rec` is a Recorder:  rec.case(case, failures=[(sig,msg)], nontrivial=key|None,
classes=[labels])  and rec.hyp(strategy, fn, n) which drives fn(case) under
Hypothesis with the shard's derived seed.
"""
from __future__ import annotations

import hashlib
import importlib
import json
import multiprocessing as mp
import os
import sys
import time
import traceback

from . import env
from . import findings as F

NPROC = int(os.environ.get("VERIF_NPROC", "16"))
MAX_SAMPLES = 8


def derive_seed(seed, prop, idx):
    h = hashlib.sha256(("%s/%s/%s" % (seed, prop, idx)).encode()).hexdigest()
    return int(h[:8], 16)


def jhash(obj):
    return hashlib.blake2b(json.dumps(obj, sort_keys=True, default=str).encode(),
                           digest_size=8).hexdigest()


class Recorder(object):
    def __init__(self, prop, shard, seed, tier):
        self.prop = prop
        self.shard = shard
        self.seed = seed
        self.tier = tier
        self.evaluations = 0
        self.nontrivial = set()
        self.classes = {}
        self.samples = []
        self.failures = {}      # sig -> {count, msg, case, size}
        self.extra = {}         # free-form counters (summed)
        self.notes = []
        self._target_sig = None
        self._deadline = None

    # -- reporting -----------------------------------------------------
    def case(self, case, failures=(), nontrivial=None, classes=(), sample=True):
        self.evaluations += 1
        if nontrivial is not None:
            k = nontrivial if isinstance(nontrivial, str) else jhash(nontrivial)
            if k not in self.nontrivial:
                self.nontrivial.add(k)
                if sample and len(self.samples) < MAX_SAMPLES:
                    self.samples.append(case)
        for c in classes:
            self.classes[c] = self.classes.get(c, 0) + 1
        for sig, msg in failures:
            self.fail(sig, msg, case)
        return failures

    def fail(self, sig, msg, case):
        try:
            size = len(json.dumps(case, default=str))
        except Exception:
            size = 10 ** 9
        cur = self.failures.get(sig)
        if cur is None:
            self.failures[sig] = {"count": 1, "msg": msg, "case": case, "size": size,
                                  "shard": self.shard}
        else:
            cur["count"] += 1
            if size < cur["size"]:
                cur.update(msg=msg, case=case, size=size, shard=self.shard)

    def count(self, key, n=1):
        self.extra[key] = self.extra.get(key, 0) + n

    # -- hypothesis driver ----------------------------------------------
    def hyp(self, strategy, fn, n, label=""):
        """Run fn(case) on n generated cases.  fn must report through rec.case and
        return the failure list.  Never raises on oracle failures during search."""
        import hypothesis
        from hypothesis import given, settings, HealthCheck, Phase, seed as hseed

        shrink_sig = self._target_sig
        budget_s = self.shard.get("_budget") if shrink_sig is not None else None
        pub = {k: v for k, v in self.shard.items() if not k.startswith("_")}
        phases = [Phase.generate] if shrink_sig is None else [Phase.generate, Phase.shrink]
        rec = self
        t_end = None if budget_s is None else time.time() + budget_s

        class _Hit(Exception):
            pass

        def body(case):
            rec._ncases = getattr(rec, "_ncases", 0) + 1
            if rec._ncases % 128 == 0:
                hygiene()
            fails = fn(case)
            if shrink_sig is not None and fails:
                if t_end is not None and time.time() > t_end:
                    return
                if any(s == shrink_sig for s, _ in fails):
                    raise _Hit()

        # One Hypothesis run keeps its whole choice tree and result cache alive; runs of
        # thousands of examples get slower and slower.  n examples are therefore drawn in
        # sub-runs of at most SUBRUN, each with its own derived seed (sub-run 0 has the seed
        # a single run would have).
        sizes = [SUBRUN] * (n // SUBRUN) + ([n % SUBRUN] if n % SUBRUN else [])
        for j, nj in enumerate(sizes):
            sd = derive_seed(self.seed, self.prop,
                             "%s/%s%s" % (json.dumps(pub, sort_keys=True), label,
                                          "" if j == 0 else "/sub%d" % j))
            st = settings(max_examples=nj, database=None, deadline=None,
                          derandomize=False, report_multiple_bugs=False,
                          suppress_health_check=list(HealthCheck), phases=phases)
            test = hseed(sd)(st(given(strategy)(body)))
            try:
                test()
            except _Hit:
                break
            except hypothesis.errors.Flaky:
                pass
            except hypothesis.errors.FlakyFailure:
                pass

    def result(self):
        return {
            "shard": self.shard,
            "evaluations": self.evaluations,
            "nontrivial": sorted(self.nontrivial),
            "classes": self.classes,
            "samples": self.samples,
            "failures": self.failures,
            "extra": self.extra,
            "notes": self.notes,
        }


def _load(prop):
    return importlib.import_module("pbt.props.%s" % prop.lower())


def _run_one(args):
    prop, shard, seed, tier, shrink_sig = args
    t0 = time.time()
    try:
        env.assert_tree()
        mod = _load(prop)
        rec = Recorder(prop, shard, seed, tier)
        if shard.get("kind") == "corpus":
            _run_corpus(mod, shard, rec)
        elif shrink_sig is None:
            mod.run_shard(shard, rec)
        else:
            rec._target_sig = shrink_sig
            mod.run_shard(shard, rec)
        r = rec.result()
        r["wall_s"] = time.time() - t0
        return r
    except BaseException:
        return {"shard": shard, "error": traceback.format_exc()}


def hygiene():
    """between cases: spyne keeps every Application (util.appreg) and, through its memoize
    tables, every generated class alive; a process that has built thousands of them gets
    several times slower per case"""
    try:
        import gc
        from spyne.util import appreg, memo
        from spyne.util.cdict import cdict
        appreg.applications.clear()
        for m in list(getattr(memo.memoize, "registry", [])):
            try:
                m.reset()
            except Exception:
                pass
        # module-level class dicts cache an entry for every class ever looked up
        if not _cdict_snap:
            def walk(d):
                _cdict_snap.append((d, set(d.keys())))
                for v in list(d.values()):
                    if isinstance(v, cdict):
                        walk(v)
            for name, mod in list(sys.modules.items()):
                if name.startswith("spyne") and mod is not None:
                    for v in list(vars(mod).values()):
                        if isinstance(v, cdict) and not any(v is d for d, _ in _cdict_snap):
                            walk(v)
        else:
            for d, keys in _cdict_snap:
                for k in [k for k in d.keys() if k not in keys]:
                    dict.__delitem__(d, k)
        gc.collect()
    except Exception:
        pass


_cdict_snap = []


CORPUS = os.path.join(env.VERIF, "corpus")


def corpus_shards(prop):
    """committed regression corpus: the (shrunk) cases of defects that were repaired, replayed
    first in every tier without Hypothesis; a case whose defect returns fails with its old
    signature"""
    d = os.path.join(CORPUS, prop)
    if not os.path.isdir(d):
        return []
    files = sorted(f for f in os.listdir(d) if f.endswith(".json"))
    return [{"kind": "corpus", "files": files[i:i + 8]} for i in range(0, len(files), 8)]


def _run_corpus(mod, shard, rec):
    for f in shard["files"]:
        with open(os.path.join(CORPUS, rec.prop, f)) as fp:
            doc = json.load(fp)
        case = doc["case"] if isinstance(doc, dict) and "case" in doc else doc
        try:
            fails = mod.replay(case)
        except Exception:          # a case format that the module no longer reads
            rec.count("corpus_stale")
            continue
        rec.count("corpus_replayed")
        for sig, msg in fails or ():
            rec.fail(sig, "[regression corpus %s] %s" % (f, msg), case)


CHUNK = int(os.environ.get("VERIF_CHUNK", "1500"))
SUBRUN = 400


def _split(shards):
    """Hypothesis shards larger than CHUNK cases are cut into sub-shards (own seed each, via the
    'sub' key): one process then never builds more than a few thousand spyne applications --
    spyne's module-level memo tables keep every generated class alive, and a worker that has
    built tens of thousands of them gets several times slower"""
    out = []
    for s in shards:
        n = s.get("n")
        if s.get("kind", "hyp") == "hyp" and isinstance(n, int) and n > CHUNK:
            k = -(-n // CHUNK)
            per = -(-n // k)
            out.extend(dict(s, n=per, sub=j) for j in range(k))
        else:
            out.append(s)
    return out


def run_property(prop, tier, seed, shrink=True):
    t0 = time.time()
    env.assert_tree()
    mod = _load(prop)
    shards = corpus_shards(prop) + _split(mod.shards(tier))
    scale = float(os.environ.get("VERIF_SCALE", "1"))      # development aid only
    if scale != 1:
        shards = [dict(s, n=max(1, int(s["n"] * scale))) if "n" in s else s for s in shards]
    ctx = mp.get_context("fork")
    nproc = min(NPROC, max(1, len(shards)))
    maxtasks = getattr(mod, "MAXTASKSPERCHILD", None)
    if len(shards) > 64:
        maxtasks = 2 if maxtasks is None else min(maxtasks, 2)
    results = []
    with ctx.Pool(nproc, maxtasksperchild=maxtasks) as pool:
        for r in pool.imap_unordered(_run_one, [(prop, s, seed, tier, None) for s in shards]):
            results.append(r)
    errors = [r for r in results if "error" in r]
    if errors:
        for e in errors[:3]:
            sys.stderr.write("HARNESS ERROR in shard %r:\n%s\n" % (e["shard"], e["error"]))
        return 2
    results.sort(key=lambda r: json.dumps(r["shard"], sort_keys=True))

    evaluations = sum(r["evaluations"] for r in results)
    nontrivial = set()
    classes = {}
    extra = {}
    samples = []
    failures = {}
    notes = []
    for r in results:
        nontrivial.update(r["nontrivial"])
        for k, v in r["classes"].items():
            classes[k] = classes.get(k, 0) + v
        for k, v in r["extra"].items():
            extra[k] = extra.get(k, 0) + v
        notes.extend(r["notes"])
        for sig, f in r["failures"].items():
            cur = failures.get(sig)
            if cur is None:
                failures[sig] = dict(f)
            else:
                cur["count"] += f["count"]
                if f["size"] < cur["size"]:
                    cnt = cur["count"]
                    cur.update(f)
                    cur["count"] = cnt
    # round-robin samples over shards so every part is represented
    i = 0
    while len(samples) < MAX_SAMPLES and any(len(r["samples"]) > i for r in results):
        for r in results:
            if len(r["samples"]) > i and len(samples) < MAX_SAMPLES:
                samples.append(r["samples"][i])
        i += 1

    kf = F.load_known()
    known_lines, new, excluded = F.classify(prop, failures, kf)
    for line in known_lines:
        print(line)
    if os.environ.get("VERIF_SAVE_KNOWN"):     # maintenance aid: refresh committed replays
        for sig in excluded:
            F.write_replay(prop, sig, failures[sig]["case"], failures[sig]["msg"])

    violations = 0
    out_lines = []
    if new:
        # shrink (bounded) and write replay files
        budget = 20 if tier == "quick" else 60
        for n, (sig, f) in enumerate(sorted(new.items())):
            case = f["case"]
            if shrink and n < 5 and getattr(mod, "SHRINKABLE", True) and \
                    f["shard"].get("kind", "hyp") == "hyp":
                try:
                    rr = _shrink(prop, f["shard"], seed, tier, sig, budget)
                    if rr is not None and rr["size"] < f["size"]:
                        case = rr["case"]
                        f["msg"] = rr["msg"]
                except Exception:
                    pass
            path = F.write_replay(prop, sig, case, f["msg"])
            out_lines.append("VIOLATION property=%s replay=%s" % (prop, path))
            sys.stderr.write("  signature: %s\n  message: %s\n  cases: %d\n"
                             % (sig, f["msg"][:1000], f["count"]))
            violations += 1

    min_nt = getattr(mod, "MIN_NONTRIVIAL", 2)
    ev = {
        "property_id": prop,
        "tier": tier,
        "seed": int(seed),
        "level": "exploration",
        "coverage": {
            "evaluations": int(evaluations),
            "distinct_nontrivial": len(nontrivial),
            "rule": mod.RULE,
            "samples": samples,
            "classes": dict(sorted(classes.items())),
            "counters": dict(sorted(extra.items())),
            "excluded_known": excluded,
            "failing_signatures_new": sorted(new),
            "shards": len(shards),
            "exhaustive_subdomains": getattr(mod, "EXHAUSTIVE", {}).get(tier, []),
            "notes": sorted(set(notes))[:20],
        },
        "assumptions": list(getattr(mod, "ASSUMPTIONS", [])),
        "wall_s": round(time.time() - t0, 2),
        "violations": violations,
    }
    os.makedirs(os.path.join(env.OUT, "evidence"), exist_ok=True)
    with open(os.path.join(env.OUT, "evidence", "%s.json" % prop), "w") as fp:
        json.dump(ev, fp, indent=1, sort_keys=True, default=str)
        fp.write("\n")

    print("%s tier=%s seed=%s evaluations=%d distinct_nontrivial=%d known=%d new=%d wall=%.1fs"
          % (prop, tier, seed, evaluations, len(nontrivial), len(known_lines), len(new),
             time.time() - t0))
    for l in out_lines:
        print(l)
    if violations:
        return 1
    if evaluations < 1 or len(nontrivial) < min_nt:
        sys.stderr.write("harness error: too few non-trivial cases (%d)\n" % len(nontrivial))
        return 2
    return 0


def _shrink(prop, shard, seed, tier, sig, budget):
    ctx = mp.get_context("fork")
    with ctx.Pool(1) as pool:
        sh = dict(shard, _budget=budget)
        a = pool.apply_async(_run_one, ((prop, sh, seed, tier, sig),))
        r = a.get(timeout=budget * 3 + 60)
    if "error" in r:
        return None
    return r["failures"].get(sig)


def replay_file(prop, path):
    env.assert_tree()
    mod = _load(prop)
    with open(path) as fp:
        doc = json.load(fp)
    case = doc["case"] if isinstance(doc, dict) and "case" in doc else doc
    fails = mod.replay(case)
    kf = F.load_known()
    rc = 0
    for sig, msg in fails:
        st = F.status_of(prop, sig, kf)
        if st == "known":
            print("KNOWN-FINDING: property=%s %s" % (prop, F.what_of(prop, sig, kf)))
        else:
            print("VIOLATION property=%s replay=%s" % (prop, path))
            sys.stderr.write("  signature: %s\n  message: %s\n" % (sig, msg[:2000]))
            rc = 1
    if not fails:
        print("replay %s: property held" % path)
    return rc


def main(argv=None):
    import argparse
    ap = argparse.ArgumentParser()
    ap.add_argument("prop")
    ap.add_argument("--tier", default=os.environ.get("VERIF_TIER", "quick"),
                    choices=["quick", "thorough"])
    ap.add_argument("--seed", default=os.environ.get("VERIF_SEED", "1"))
    ap.add_argument("--replay")
    ap.add_argument("--no-shrink", action="store_true")
    a = ap.parse_args(argv)
    try:
        seed = int(a.seed)
    except ValueError:
        seed = int(hashlib.sha256(a.seed.encode()).hexdigest()[:8], 16)
    try:
        if a.prop == "selftest":
            from . import selftest
            return selftest.main()
        prop = a.prop.upper()
        if a.replay:
            return replay_file(prop, a.replay)
        return run_property(prop, a.tier, seed, shrink=not a.no_shrink)
    except SystemExit:
        raise
    except BaseException:
        traceback.print_exc()
        return 2


if __name__ == "__main__":
    sys.exit(main())
