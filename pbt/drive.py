"""Drivers: the ServerBase pipeline, the WSGI callable with a recording start_response,
and the loop-back spyne client."""
import io

from . import env  # noqa: F401
from . import findings as F


class Outcome(object):
    """what one request produced"""

    def __init__(self):
        self.escaped = None       # (exc, stage) if an exception escaped the pipeline
        self.in_error = None
        self.out_error = None
        self.out_bytes = None
        self.ctx = None
        self.status = None
        self.headers = None

    @property
    def fault(self):
        return self.out_error if self.out_error is not None else self.in_error


def server_call(app, body, charset=None, server=None):
    """Run one request through the pipeline in the order WsgiApplication.handle_rpc does.
    -> Outcome (never raises for exceptions coming out of spyne: they are recorded)."""
    from spyne import MethodContext
    from spyne.server import ServerBase
    out = Outcome()
    srv = server or ServerBase(app)
    ctx = MethodContext(srv, MethodContext.SERVER)
    ctx.in_string = [body] if isinstance(body, bytes) else body
    stage = "generate_contexts"
    try:
        ctxs = srv.generate_contexts(ctx, charset)
        p = ctxs[0]
        out.ctx = p
        if p.in_error is None:
            stage = "get_in_object"
            srv.get_in_object(p)
        if p.in_error is None:
            stage = "get_out_object"
            srv.get_out_object(p)
        else:
            p.out_error = p.in_error
        stage = "get_out_string"
        srv.get_out_string(p)
        stage = "join"
        out.out_bytes = b"".join(p.out_string)
        out.in_error = p.in_error
        out.out_error = p.out_error
        stage = "close"
        p.close()
    except Exception as e:
        out.escaped = (e, stage)
    return out


class WsgiResult(object):
    def __init__(self):
        self.calls = []       # (status, headers, exc_info)
        self.chunks = []
        self.escaped = None
        self.events = []      # interleaving of 'start_response' / 'chunk' / ...

    @property
    def status(self):
        return self.calls[0][0] if self.calls else None

    @property
    def headers(self):
        return self.calls[0][1] if self.calls else None

    @property
    def body(self):
        return b"".join(self.chunks)

    def header(self, name):
        for k, v in (self.headers or []):
            if k.lower() == name.lower():
                return v
        return None


def environ(method="POST", path="/", query="", body=b"", content_type="text/xml; charset=utf-8",
            content_length="auto", extra=None, stream=None):
    env_ = {
        "REQUEST_METHOD": method, "SCRIPT_NAME": "", "PATH_INFO": path, "QUERY_STRING": query,
        "SERVER_NAME": "localhost", "SERVER_PORT": "80", "SERVER_PROTOCOL": "HTTP/1.1",
        "wsgi.version": (1, 0), "wsgi.url_scheme": "http",
        "wsgi.input": stream if stream is not None else io.BytesIO(body),
        "wsgi.errors": io.StringIO(), "wsgi.multithread": True, "wsgi.multiprocess": False,
        "wsgi.run_once": False, "HTTP_HOST": "localhost",
    }
    if content_type is not None:
        env_["CONTENT_TYPE"] = content_type
    if content_length == "auto":
        env_["CONTENT_LENGTH"] = str(len(body))
    elif content_length is not None:
        env_["CONTENT_LENGTH"] = content_length
    if extra:
        env_.update(extra)
    return env_


def wsgi_call(wsgi_app, env_, max_chunks=None):
    """-> WsgiResult; consumes the iterable (up to max_chunks, then close())."""
    res = WsgiResult()

    def start_response(status, headers, exc_info=None):
        res.calls.append((status, list(headers), exc_info))
        res.events.append("start_response")
        return lambda data: res.chunks.append(data)

    try:
        it = wsgi_app(env_, start_response)
        res.events.append("returned")
        try:
            n = 0
            for chunk in it:
                res.events.append("chunk")
                res.chunks.append(chunk)
                n += 1
                if max_chunks is not None and n >= max_chunks:
                    break
        finally:
            if hasattr(it, "close"):
                it.close()
            res.events.append("closed")
    except Exception as e:
        res.escaped = e
    return res


def origin(exc):
    return F.exc_origin(exc)


# ---------------------------------------------------------------------------
# loop-back spyne client: spyne's own RemoteProcedureBase with the HTTP hop replaced
# by server_call on the same application
def loopback_call(app, method_name, args, kwargs=None, out_header=None):
    """-> (request bytes, Outcome of the server side, client result | raised exception)"""
    from spyne.client import RemoteProcedureBase

    class _RP(RemoteProcedureBase):
        def __call__(self, *a, **kw):
            self.ctx, = self.contexts
            self.get_out_object(self.ctx, a, kw)
            self.get_out_string(self.ctx)
            self.request = b"".join(self.ctx.out_string)
            self.outcome = server_call(app, self.request)
            if self.outcome.escaped is not None:
                raise self.outcome.escaped[0]
            self.ctx.in_string = [self.outcome.out_bytes]
            self.get_in_object(self.ctx)
            if self.ctx.in_error is not None:
                raise self.ctx.in_error
            return self.ctx.in_object

    rp = _RP("http://loopback/", app, method_name, out_header)
    try:
        res = rp(*args, **(kwargs or {}))
        err = None
    except Exception as e:      # the exception is the observation
        res, err = None, e
    return getattr(rp, "request", None), getattr(rp, "outcome", None), res, err
