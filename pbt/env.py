"""Locate the spyne tree under test and make sure it is the one imported."""
import os
import sys
import logging

VERIF = os.path.dirname(os.path.dirname(os.path.abspath(__file__)))
REPO = os.path.abspath(os.environ.get("SPYNE_UNDER_TEST", "/repo"))
DEPS = os.path.join(VERIF, ".deps")
# where evidence/ and replays/ are written (scratch dir for sensitivity runs on mutants)
OUT = os.path.abspath(os.environ.get("VERIF_OUT_DIR", VERIF))

if REPO in sys.path:
    sys.path.remove(REPO)
sys.path.insert(0, REPO)
if os.path.isdir(DEPS) and DEPS not in sys.path:
    sys.path.append(DEPS)

# hooks guard (no source hooks exist; the variable is set for completeness)
os.environ.setdefault("SPYNE_VERIF", "1")

logging.disable(logging.CRITICAL)  # spyne logs every fault with a traceback


def assert_tree():
    import spyne
    here = os.path.abspath(spyne.__file__)
    if not here.startswith(REPO + os.sep):
        raise SystemExit("harness error: spyne imported from %s, expected %s"
                         % (here, REPO))
    return here
