"""Independent XSD (part 2) lexical-space knowledge: literal generators with their
denotation, and parsers used as denotation oracles.  Imports nothing from spyne.

Every `lit_*` strategy yields (literal, value) where `literal` is in the lexical space
of the xs: type and `value` is the Python value it denotes (always representable).
"""
import base64
import datetime as dtm
import decimal
import math
import re
import uuid as uuidm

from hypothesis import strategies as st

D = decimal.Decimal

XML_WS = " \t\n\r"


WS = False   # surrounding whitespace is removed by the schema processor *before* the
             # lexical mapping, so it is not part of the lexical space: not generated.


def ws():
    """optional surrounding whitespace (whiteSpace=collapse types)."""
    if not WS:
        return st.just("")
    return st.sampled_from(["", "", "", " ", "\n", "\t ", "  "])


def _wrap(core):
    return st.tuples(ws(), core, ws()).map(lambda t: (t[0] + t[1][0] + t[2], t[1][1]))


# ---------------------------------------------------------------- integers
def lit_integer(lo=None, hi=None, max_len=None):
    """max_len: longest literal generated (spyne documents a max_str_len guard on
    fixed-width integers; redundant leading zeros beyond it are not demanded)."""
    def build(t):
        v, sign_plus, zeros = t
        s = str(abs(v))
        s = "0" * zeros + s
        if v < 0:
            s = "-" + s
        elif sign_plus:
            s = "+" + s
        if max_len is not None and len(s) > max_len:
            s = str(v)
        return s, v
    ints = st.one_of(
        st.integers(min_value=lo, max_value=hi),
        st.sampled_from([x for x in (0, 1, -1, 127, 128, -128, 255, 256, 32767, -32768, 65535,
                                     2 ** 31 - 1, -2 ** 31, 2 ** 32 - 1, 2 ** 63 - 1, -2 ** 63,
                                     2 ** 64 - 1, 2 ** 64, 10 ** 30, -10 ** 30)
                         if (lo is None or x >= lo) and (hi is None or x <= hi)]))
    return _wrap(st.tuples(ints, st.booleans(), st.integers(0, 3)).map(build))


def lit_decimal():
    def build(t):
        sign, ip, fp, style = t
        if style == 0:
            s = ip
        elif style == 1:
            s = ip + "." + fp
        elif style == 2:
            s = "." + (fp or "0")
        else:
            s = ip + "."
        s = sign + s
        return s, D(s)
    digits = st.text("0123456789", min_size=1, max_size=30)
    return _wrap(st.tuples(st.sampled_from(["", "-", "+"]), digits,
                           st.text("0123456789", min_size=0, max_size=30),
                           st.integers(0, 3)).map(build))


def lit_double():
    def build(t):
        (m, _), e, exp = t
        s = m.strip()
        if e:
            s = s + e + exp
        return s, float(s)
    mant = lit_decimal().map(lambda t: (t[0].strip(), None))
    exp = st.tuples(st.sampled_from(["", "-", "+"]), st.integers(0, 320)).map(
        lambda t: "%s%d" % t)
    num = st.tuples(mant.filter(lambda t: len(t[0]) < 40), st.sampled_from(["", "e", "E"]),
                    exp).map(build)
    special = st.sampled_from([("INF", float("inf")), ("-INF", float("-inf")),
                               ("NaN", float("nan"))])
    # libxml2 rejects INF/NaN with surrounding whitespace (a libxml2 quirk): calibrated out
    return st.one_of(_wrap(num), _wrap(num), _wrap(num), special)


def lit_boolean():
    return _wrap(st.sampled_from([("true", True), ("false", False), ("1", True), ("0", False)]))


# ---------------------------------------------------------------- date/time
def _frac(us_digits):
    """fractional-second text of 1..6 digits and its microsecond value"""
    def build(t):
        n, v = t
        s = ("%06d" % v)[:n]
        return "." + s, int(s.ljust(6, "0"))
    return st.tuples(us_digits, st.integers(0, 999999)).map(build)


def fracs():
    return st.one_of(st.just(("", 0)), _frac(st.integers(1, 6)))


def offsets():
    """(text, minutes | None)"""
    def build(m):
        sign = "-" if m < 0 else "+"
        a = abs(m)
        return "%s%02d:%02d" % (sign, a // 60, a % 60), m
    return st.one_of(st.just(("", None)), st.just(("Z", 0)),
                     st.integers(-840, 840).map(build),
                     st.sampled_from([-840, -839, -210, -61, -60, -59, -30, -1, 1, 30, 59, 60,
                                      61, 345, 765, 840]).map(build))


def dates(min_year=1, max_year=9999):
    return st.one_of(
        st.dates(min_value=dtm.date(min_year, 1, 1), max_value=dtm.date(max_year, 12, 31)),
        st.sampled_from([d for d in (dtm.date(min_year, 1, 1), dtm.date(max_year, 12, 31),
                                      dtm.date(2000, 2, 29), dtm.date(1999, 12, 31),
                                      dtm.date(1970, 1, 1), dtm.date(2038, 1, 19),
                                      dtm.date(1900, 3, 1))
                         if min_year <= d.year <= max_year]))


def tz_of(minutes):
    if minutes is None:
        return None
    return dtm.timezone(dtm.timedelta(minutes=minutes))


def lit_datetime():
    def build(t):
        d, (h, mi, s), (ft, us), (ot, om), sep24 = t
        if sep24 and h == 0 and mi == 0 and s == 0 and us == 0 and d > dtm.date(1, 1, 1):
            # 24:00:00 denotes the first instant of the next day
            prev = d - dtm.timedelta(days=1)
            text = "%04d-%02d-%02dT24:00:00%s" % (prev.year, prev.month, prev.day, ot)
        else:
            text = "%04d-%02d-%02dT%02d:%02d:%02d%s%s" % (d.year, d.month, d.day, h, mi, s,
                                                         ft, ot)
        v = dtm.datetime(d.year, d.month, d.day, h, mi, s, us, tz_of(om))
        return text, v
    hms = st.one_of(st.tuples(st.integers(0, 23), st.integers(0, 59), st.integers(0, 59)),
                    st.sampled_from([(0, 0, 0), (23, 59, 59), (12, 0, 0)]))
    return _wrap(st.tuples(dates(), hms, fracs(), offsets(),
                           st.integers(0, 7).map(lambda x: x == 0)).map(build))


def lit_date():
    def build(t):
        d, (ot, om) = t
        return "%04d-%02d-%02d%s" % (d.year, d.month, d.day, ot), d
    return _wrap(st.tuples(dates(), offsets()).map(build))


def lit_time():
    def build(t):
        (h, mi, s), (ft, us) = t
        return "%02d:%02d:%02d%s" % (h, mi, s, ft), dtm.time(h, mi, s, us)
    hms = st.one_of(st.tuples(st.integers(0, 23), st.integers(0, 59), st.integers(0, 59)),
                    st.sampled_from([(0, 0, 0), (23, 59, 59)]))
    return _wrap(st.tuples(hms, fracs()).map(build))


def lit_duration():
    """day-time durations (no years/months): [-]P[nD][T[nH][nM][n[.n]S]]"""
    def build(t):
        neg, d, h, m, s, (ft, us), use = t
        parts = []
        tparts = []
        val = dtm.timedelta()
        if use & 1:
            parts.append("%dD" % d)
            val += dtm.timedelta(days=d)
        if use & 2:
            tparts.append("%dH" % h)
            val += dtm.timedelta(hours=h)
        if use & 4:
            tparts.append("%dM" % m)
            val += dtm.timedelta(minutes=m)
        if use & 8:
            tparts.append("%d%sS" % (s, ft))
            val += dtm.timedelta(seconds=s, microseconds=us)
        if not parts and not tparts:
            tparts.append("0S")
        text = "P" + "".join(parts) + ("T" + "".join(tparts) if tparts else "")
        if neg:
            text = "-" + text
            val = -val
        return text, val
    big = st.one_of(st.integers(0, 99), st.integers(0, 100000))
    return _wrap(st.tuples(st.booleans(), st.one_of(st.integers(0, 400), st.integers(0, 99999)),
                           big, big, big, fracs(), st.integers(0, 15)).map(build))


# ---------------------------------------------------------------- binary
def lit_hex():
    def build(t):
        b, upper = t
        s = b.hex()
        return (s.upper() if upper else s), b
    return _wrap(st.tuples(st.binary(max_size=40), st.booleans()).map(build))


def lit_base64():
    """canonical base64 and the XSD-legal variant with interior whitespace"""
    def build(t):
        b, every = t
        s = base64.b64encode(b).decode("ascii")
        if every:
            s = " ".join(s[i:i + every] for i in range(0, len(s), every))
        return s, b
    return _wrap(st.tuples(st.binary(max_size=60), st.sampled_from([0, 0, 0, 4, 8, 76])
                           ).map(build))


def lit_uuid():
    def build(t):
        u, upper = t
        s = str(u)
        return (s.upper() if upper else s), u
    return st.tuples(st.uuids(), st.booleans()).map(build)


# ---------------------------------------------------------------- XML text
def xml_chars(max_cp=0x10FFFF):
    """XML 1.0 Char, minus \\r (a parser normalises it) """
    return st.characters(min_codepoint=0x9, max_codepoint=max_cp,
                         blacklist_categories=("Cs",),
                         blacklist_characters=[chr(c) for c in (0xB, 0xC, 0xD)
                                               ] + [chr(c) for c in range(0xE, 0x20)
                                                    ] + ["￾", "￿"])


def xml_text(min_size=0, max_size=20):
    return st.one_of(
        st.text(xml_chars(), min_size=min_size, max_size=max_size),
        st.text(st.sampled_from(list(" \t\nabcXYZ019<>&\"'éı€\U0001F600%+=;/?#[]")),
                min_size=min_size, max_size=max_size))
