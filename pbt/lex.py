"""Independent XSD (part 2) lexical-space knowledge: literal generators with their
denotation, and parsers used as denotation oracles.  Imports nothing from spyne.

Every `lit_*` strategy yields (literal, value) where `literal` is in the lexical space
of the xs: type and `value` is the Python value it denotes (always representable).
"""
import base64
import datetime as dtm
import decimal
import math
import re
import uuid as uuidm

from hypothesis import strategies as st

D = decimal.Decimal

XML_WS = " \t\n\r"


WS = False   # surrounding whitespace is removed by the schema processor *before* the
             # lexical mapping, so it is not part of the lexical space: not generated.


def ws():
    """optional surrounding whitespace (whiteSpace=collapse types)."""
    if not WS:
        return st.just("")
    return st.sampled_from(["", "", "", " ", "\n", "\t ", "  "])


def _wrap(core):
    return st.tuples(ws(), core, ws()).map(lambda t: (t[0] + t[1][0] + t[2], t[1][1]))


# ---------------------------------------------------------------- integers
def lit_integer(lo=None, hi=None, max_len=None):
    """max_len: longest literal generated (spyne documents a max_str_len guard on
    fixed-width integers; redundant leading zeros beyond it are not demanded)."""
    def build(t):
        v, sign_plus, zeros = t
        s = str(abs(v))
        s = "0" * zeros + s
        if v < 0:
            s = "-" + s
        elif sign_plus:
            s = "+" + s
        if max_len is not None and len(s) > max_len:
            s = str(v)
        return s, v
    ints = st.one_of(
        st.integers(min_value=lo, max_value=hi),
        st.sampled_from([x for x in (0, 1, -1, 127, 128, -128, 255, 256, 32767, -32768, 65535,
                                     2 ** 31 - 1, -2 ** 31, 2 ** 32 - 1, 2 ** 63 - 1, -2 ** 63,
                                     2 ** 64 - 1, 2 ** 64, 10 ** 30, -10 ** 30)
                         if (lo is None or x >= lo) and (hi is None or x <= hi)]))
    return _wrap(st.tuples(ints, st.booleans(), st.integers(0, 3)).map(build))


def lit_decimal():
    def build(t):
        sign, ip, fp, style = t
        if style == 0:
            s = ip
        elif style == 1:
            s = ip + "." + fp
        elif style == 2:
            s = "." + (fp or "0")
        else:
            s = ip + "."
        s = sign + s
        return s, D(s)
    digits = st.text("0123456789", min_size=1, max_size=30)
    return _wrap(st.tuples(st.sampled_from(["", "-", "+"]), digits,
                           st.text("0123456789", min_size=0, max_size=30),
                           st.integers(0, 3)).map(build))


def lit_double():
    def build(t):
        (m, _), e, exp = t
        s = m.strip()
        if e:
            s = s + e + exp
        return s, float(s)
    mant = lit_decimal().map(lambda t: (t[0].strip(), None))
    exp = st.tuples(st.sampled_from(["", "-", "+"]), st.integers(0, 320)).map(
        lambda t: "%s%d" % t)
    num = st.tuples(mant.filter(lambda t: len(t[0]) < 40), st.sampled_from(["", "e", "E"]),
                    exp).map(build)
    special = st.sampled_from([("INF", float("inf")), ("-INF", float("-inf")),
                               ("NaN", float("nan"))])
    # libxml2 rejects INF/NaN with surrounding whitespace (a libxml2 quirk): calibrated out
    return st.one_of(_wrap(num), _wrap(num), _wrap(num), special)


def lit_boolean():
    return _wrap(st.sampled_from([("true", True), ("false", False), ("1", True), ("0", False)]))


# ---------------------------------------------------------------- date/time
def _frac(us_digits):
    """fractional-second text of 1..6 digits and its microsecond value"""
    def build(t):
        n, v = t
        s = ("%06d" % v)[:n]
        return "." + s, int(s.ljust(6, "0"))
    return st.tuples(us_digits, st.integers(0, 999999)).map(build)


def fracs():
    return st.one_of(st.just(("", 0)), _frac(st.integers(1, 6)))


def offsets():
    """(text, minutes | None)"""
    def build(m):
        sign = "-" if m < 0 else "+"
        a = abs(m)
        return "%s%02d:%02d" % (sign, a // 60, a % 60), m
    return st.one_of(st.just(("", None)), st.just(("Z", 0)),
                     st.integers(-840, 840).map(build),
                     st.sampled_from([-840, -839, -210, -61, -60, -59, -30, -1, 1, 30, 59, 60,
                                      61, 345, 765, 840]).map(build))


def dates(min_year=1, max_year=9999):
    return st.one_of(
        st.dates(min_value=dtm.date(min_year, 1, 1), max_value=dtm.date(max_year, 12, 31)),
        st.sampled_from([d for d in (dtm.date(min_year, 1, 1), dtm.date(max_year, 12, 31),
                                      dtm.date(2000, 2, 29), dtm.date(1999, 12, 31),
                                      dtm.date(1970, 1, 1), dtm.date(2038, 1, 19),
                                      dtm.date(1900, 3, 1))
                         if min_year <= d.year <= max_year]))


def tz_of(minutes):
    if minutes is None:
        return None
    return dtm.timezone(dtm.timedelta(minutes=minutes))


def lit_datetime():
    def build(t):
        d, (h, mi, s), (ft, us), (ot, om), sep24 = t
        if sep24 and h == 0 and mi == 0 and s == 0 and us == 0 and d > dtm.date(1, 1, 1):
            # 24:00:00 denotes the first instant of the next day
            prev = d - dtm.timedelta(days=1)
            text = "%04d-%02d-%02dT24:00:00%s" % (prev.year, prev.month, prev.day, ot)
        else:
            text = "%04d-%02d-%02dT%02d:%02d:%02d%s%s" % (d.year, d.month, d.day, h, mi, s,
                                                         ft, ot)
        v = dtm.datetime(d.year, d.month, d.day, h, mi, s, us, tz_of(om))
        return text, v
    hms = st.one_of(st.tuples(st.integers(0, 23), st.integers(0, 59), st.integers(0, 59)),
                    st.sampled_from([(0, 0, 0), (23, 59, 59), (12, 0, 0)]))
    return _wrap(st.tuples(dates(), hms, fracs(), offsets(),
                           st.integers(0, 7).map(lambda x: x == 0)).map(build))


def lit_date():
    def build(t):
        d, (ot, om) = t
        return "%04d-%02d-%02d%s" % (d.year, d.month, d.day, ot), d
    return _wrap(st.tuples(dates(), offsets()).map(build))


def lit_time():
    def build(t):
        (h, mi, s), (ft, us) = t
        return "%02d:%02d:%02d%s" % (h, mi, s, ft), dtm.time(h, mi, s, us)
    hms = st.one_of(st.tuples(st.integers(0, 23), st.integers(0, 59), st.integers(0, 59)),
                    st.sampled_from([(0, 0, 0), (23, 59, 59)]))
    return _wrap(st.tuples(hms, fracs()).map(build))


def lit_duration():
    """day-time durations (no years/months): [-]P[nD][T[nH][nM][n[.n]S]]"""
    def build(t):
        neg, d, h, m, s, (ft, us), use = t
        parts = []
        tparts = []
        val = dtm.timedelta()
        if use & 1:
            parts.append("%dD" % d)
            val += dtm.timedelta(days=d)
        if use & 2:
            tparts.append("%dH" % h)
            val += dtm.timedelta(hours=h)
        if use & 4:
            tparts.append("%dM" % m)
            val += dtm.timedelta(minutes=m)
        if use & 8:
            tparts.append("%d%sS" % (s, ft))
            val += dtm.timedelta(seconds=s, microseconds=us)
        if not parts and not tparts:
            tparts.append("0S")
        text = "P" + "".join(parts) + ("T" + "".join(tparts) if tparts else "")
        if neg:
            text = "-" + text
            val = -val
        return text, val
    big = st.one_of(st.integers(0, 99), st.integers(0, 100000))
    return _wrap(st.tuples(st.booleans(), st.one_of(st.integers(0, 400), st.integers(0, 99999)),
                           big, big, big, fracs(), st.integers(0, 15)).map(build))


# ---------------------------------------------------------------- binary
def lit_hex():
    def build(t):
        b, upper = t
        s = b.hex()
        return (s.upper() if upper else s), b
    return _wrap(st.tuples(st.binary(max_size=40), st.booleans()).map(build))


def lit_base64():
    """canonical base64 and the XSD-legal variant with interior whitespace"""
    def build(t):
        b, every = t
        s = base64.b64encode(b).decode("ascii")
        if every:
            s = " ".join(s[i:i + every] for i in range(0, len(s), every))
        return s, b
    return _wrap(st.tuples(st.binary(max_size=60), st.sampled_from([0, 0, 0, 4, 8, 76])
                           ).map(build))


def lit_uuid():
    def build(t):
        u, upper = t
        s = str(u)
        return (s.upper() if upper else s), u
    return st.tuples(st.uuids(), st.booleans()).map(build)


# ---------------------------------------------------------------- XML text
def xml_chars(max_cp=0x10FFFF):
    """XML 1.0 Char, minus \\r (a parser normalises it) """
    return st.characters(min_codepoint=0x9, max_codepoint=max_cp,
                         blacklist_categories=("Cs",),
                         blacklist_characters=[chr(c) for c in (0xB, 0xC, 0xD)
                                               ] + [chr(c) for c in range(0xE, 0x20)
                                                    ] + ["￾", "￿"])


def xml_text(min_size=0, max_size=20):
    return st.one_of(
        st.text(xml_chars(), min_size=min_size, max_size=max_size),
        st.text(st.sampled_from(list(" \t\nabcXYZ019<>&\"'éı€\U0001F600%+=;/?#[]")),
                min_size=min_size, max_size=max_size))


# ---------------------------------------------------------------- parsers / printers
# (used by the reference codecs; independent of spyne)
_DT_RE = re.compile(r"^(-?\d{4,})-(\d\d)-(\d\d)T(\d\d):(\d\d):(\d\d)(\.\d+)?(Z|[+-]\d\d:\d\d)?$")
_DATE_RE = re.compile(r"^(-?\d{4,})-(\d\d)-(\d\d)(Z|[+-]\d\d:\d\d)?$")
_TIME_RE = re.compile(r"^(\d\d):(\d\d):(\d\d)(\.\d+)?(Z|[+-]\d\d:\d\d)?$")
_DUR_RE = re.compile(r"^(-)?P(?:(\d+)Y)?(?:(\d+)M)?(?:(\d+)D)?"
                     r"(?:T(?:(\d+)H)?(?:(\d+)M)?(?:(\d+)(?:\.(\d+))?S)?)?$")


class LexError(ValueError):
    pass


def _tz(s):
    if not s:
        return None
    if s == "Z":
        return dtm.timezone.utc
    sign = -1 if s[0] == "-" else 1
    return dtm.timezone(sign * dtm.timedelta(hours=int(s[1:3]), minutes=int(s[4:6])))


def _us(frac):
    if not frac:
        return 0
    digits = frac.lstrip(".")
    if len(digits) > 6:
        raise LexError("more than 6 fractional digits")
    return int(digits.ljust(6, "0"))


def parse_datetime(s):
    m = _DT_RE.match(s.strip(XML_WS))
    if not m:
        raise LexError(s)
    y, mo, d, h, mi, sec = (int(m.group(i)) for i in range(1, 7))
    add = dtm.timedelta(0)
    if h == 24 and mi == 0 and sec == 0:
        h, add = 0, dtm.timedelta(days=1)
    return dtm.datetime(y, mo, d, h, mi, sec, _us(m.group(7)), _tz(m.group(8))) + add


def parse_date(s):
    m = _DATE_RE.match(s.strip(XML_WS))
    if not m:
        raise LexError(s)
    return dtm.date(int(m.group(1)), int(m.group(2)), int(m.group(3)))


def parse_time(s):
    m = _TIME_RE.match(s.strip(XML_WS))
    if not m:
        raise LexError(s)
    return dtm.time(int(m.group(1)), int(m.group(2)), int(m.group(3)), _us(m.group(4)))


def parse_duration(s):
    s = s.strip(XML_WS)
    m = _DUR_RE.match(s)
    if not m or s in ("P", "-P") or s.endswith("T"):
        raise LexError(s)
    neg, y, mo, d, h, mi, sec, frac = m.groups()
    if y or mo:
        raise LexError("year/month durations are not representable")
    v = dtm.timedelta(days=int(d or 0), hours=int(h or 0), minutes=int(mi or 0),
                      seconds=int(sec or 0), microseconds=_us(frac))
    return -v if neg else v


def parse_double(s):
    s = s.strip(XML_WS)
    if s in ("INF", "+INF"):
        return float("inf")
    if s == "-INF":
        return float("-inf")
    if s == "NaN":
        return float("nan")
    if not re.match(r"^[+-]?(\d+(\.\d*)?|\.\d+)([eE][+-]?\d+)?$", s):
        raise LexError(s)
    return float(s)


def parse_decimal(s):
    s = s.strip(XML_WS)
    if not re.match(r"^[+-]?(\d+(\.\d*)?|\.\d+)$", s):
        raise LexError(s)
    return D(s)


def parse_integer(s):
    s = s.strip(XML_WS)
    if not re.match(r"^[+-]?\d+$", s):
        raise LexError(s)
    return int(s)


def parse_boolean(s):
    s = s.strip(XML_WS)
    if s in ("true", "1"):
        return True
    if s in ("false", "0"):
        return False
    raise LexError(s)


def parse_base64(s):
    s = re.sub(r"[ \t\r\n]", "", s)
    try:
        return base64.b64decode(s, validate=True)
    except Exception as e:
        raise LexError(str(e))


def parse_hex(s):
    try:
        return bytes.fromhex(s.strip(XML_WS))
    except ValueError as e:
        raise LexError(str(e))


def print_offset(off):
    if off is None:
        return ""
    m = int(off.total_seconds() // 60)
    sign = "-" if m < 0 else "+"
    return "%s%02d:%02d" % (sign, abs(m) // 60, abs(m) % 60)


def print_datetime(v, z_for_utc=False):
    s = "%04d-%02d-%02dT%02d:%02d:%02d" % (v.year, v.month, v.day, v.hour, v.minute, v.second)
    if v.microsecond:
        s += (".%06d" % v.microsecond).rstrip("0")
    off = v.utcoffset()
    if off is not None and off == dtm.timedelta(0) and z_for_utc:
        return s + "Z"
    return s + print_offset(off)


def print_time(v):
    s = "%02d:%02d:%02d" % (v.hour, v.minute, v.second)
    if v.microsecond:
        s += (".%06d" % v.microsecond).rstrip("0")
    return s


def print_duration(v):
    neg = v < dtm.timedelta(0)
    a = -v if neg else v
    s = "P"
    if a.days:
        s += "%dD" % a.days
    h, rem = divmod(a.seconds, 3600)
    mi, sec = divmod(rem, 60)
    t = ""
    if h:
        t += "%dH" % h
    if mi:
        t += "%dM" % mi
    if sec or a.microseconds:
        t += "%d" % sec
        if a.microseconds:
            t += (".%06d" % a.microseconds).rstrip("0")
        t += "S"
    if t:
        s += "T" + t
    if s == "P":
        s = "PT0S"
    return ("-" if neg else "") + s


def print_double(v):
    if v != v:
        return "NaN"
    if v == float("inf"):
        return "INF"
    if v == float("-inf"):
        return "-INF"
    return repr(float(v))


def print_decimal(v):
    return format(D(v), "f")
