"""Fast self-test of the references (run by setup.sh): reference literals validate under
libxml2 and denote what the generators say they denote."""
import sys

from hypothesis import given, settings, HealthCheck, seed

from . import env, lex, xsdval


def main():
    env.assert_tree()
    pairs = [("integer", lex.lit_integer()), ("decimal", lex.lit_decimal()),
             ("double", lex.lit_double()), ("boolean", lex.lit_boolean()),
             ("dateTime", lex.lit_datetime()), ("date", lex.lit_date()),
             ("time", lex.lit_time()), ("duration", lex.lit_duration()),
             ("hexBinary", lex.lit_hex()), ("base64Binary", lex.lit_base64())]
    bad = []
    for xs, strat in pairs:
        @seed(1)
        @settings(max_examples=200, database=None, deadline=None,
                  suppress_health_check=list(HealthCheck))
        @given(strat)
        def t(p):
            if not xsdval.valid(xs, p[0]):
                bad.append((xs, p[0]))
        t()
    if bad:
        sys.stderr.write("selftest: reference literals rejected by libxml2: %r\n" % bad[:5])
        return 2
    print("selftest ok")
    return 0
