"""Known-findings file handling and replay files.

known_findings.json (committed, never written at run time) is a list of
  {"property": "C08", "signature": "...", "status": "known"|"fixed",
   "what": "<one line>", "replay": "replays/C08/....json", "commit": "<sha, if fixed>"}

A signature names one root cause as precisely as the property allows (see DESIGN 1.4).
`known` entries are reported as KNOWN-FINDING lines and excluded; `fixed` entries
suppress nothing (a recurrence is a VIOLATION).
"""
import hashlib
import json
import os
import re
import sys
import traceback

from . import env

KNOWN_PATH = os.path.join(env.VERIF, "known_findings.json")


def load_known():
    if not os.path.exists(KNOWN_PATH):
        return []
    with open(KNOWN_PATH) as fp:
        return json.load(fp)["findings"]


def _entry(prop, sig, kf):
    for e in kf:
        if e["property"] == prop and e["signature"] == sig:
            return e
    return None


def status_of(prop, sig, kf):
    e = _entry(prop, sig, kf)
    return None if e is None else e["status"]


def what_of(prop, sig, kf):
    e = _entry(prop, sig, kf)
    return sig if e is None else "%s [%s]" % (e["what"], sig)


def classify(prop, failures, kf):
    """-> (KNOWN-FINDING lines, {sig: failure} not listed as known, excluded counts)"""
    lines, new, excluded = [], {}, {}
    for sig in sorted(failures):
        f = failures[sig]
        if status_of(prop, sig, kf) == "known":
            lines.append("KNOWN-FINDING: property=%s %s" % (prop, what_of(prop, sig, kf)))
            excluded[sig] = f["count"]
        else:
            new[sig] = f
    return lines, new, excluded


def sig_slug(sig):
    s = re.sub(r"[^A-Za-z0-9_.-]+", "_", sig)[:80]
    return "%s-%s" % (s, hashlib.sha256(sig.encode()).hexdigest()[:8])


def write_replay(prop, sig, case, msg):
    d = os.path.join(env.OUT, "replays", prop)
    os.makedirs(d, exist_ok=True)
    path = os.path.join(d, sig_slug(sig) + ".json")
    with open(path, "w") as fp:
        json.dump({"property": prop, "signature": sig, "message": msg, "case": case},
                  fp, indent=1, sort_keys=True, default=str)
        fp.write("\n")
    return os.path.relpath(path, env.OUT)


# ---------------------------------------------------------------------------
# signatures for escaped exceptions

_SPYNE = os.sep + "spyne" + os.sep


def exc_origin(exc=None, tb=None):
    """(exception type name, 'file.py:function' of the innermost frame inside the
    spyne package) for the exception being handled / given."""
    if exc is None:
        et, exc, tb = sys.exc_info()
    if tb is None:
        tb = exc.__traceback__
    where = "?"
    for fs in traceback.extract_tb(tb):
        fn = fs.filename
        if _SPYNE in fn and (os.sep + "test" + os.sep) not in fn:
            where = "%s:%s" % (fn.split(_SPYNE, 1)[1], fs.name)
    return type(exc).__name__, where
