"""Conformant-value strategies (tagged JSON) for type references of a universe spec, and
the structural equality between a native value received from spyne and the expected JSON."""
import decimal
import re

from hypothesis import strategies as st

from . import eq, jv, leafvals as lv, lex
from .spec import PRIM_KIND, int_bounds

D = decimal.Decimal

PATTERN_GEN = {
    "[a-z]{1,5}": st.text("abcxyz", min_size=1, max_size=5),
    "[0-9]+": st.text("0123456789", min_size=1, max_size=8),
    "A|BC": st.sampled_from(["A", "BC"]),
    "[A-Z][a-z]*": st.tuples(st.sampled_from("ABZ"), st.text("abz", max_size=4)).map("".join),
    "x?y{2}": st.sampled_from(["yy", "xyy"]),
}


def _no_exp(v):
    """known finding C08|xsd-invalid|Decimal|exp_repr is excluded by construction: Decimals
    whose str() would use an exponent are replaced by an equal-magnitude plain one"""
    if "E" not in str(v):
        return v
    w = D(format(v, "f"))
    if "E" not in str(w) and len(str(w)) < 60:
        return w
    return D(str(v.to_integral_value()).split("E")[0])


def prim_values(t, text_max=20, year_lo=1, year_hi=9999, special_floats=True, dec_exp=False):
    """strategy of native values conforming to primitive tref t"""
    name, f = t["t"], t.get("f", {})
    k = PRIM_KIND[name]
    if k == "dec" and not dec_exp:
        return prim_values(t, text_max, year_lo, year_hi, special_floats, True).map(_no_exp)
    if k == "int":
        lo, hi = int_bounds(name)
        if "ge" in f:
            lo = jv.dec(f["ge"])
        if "le" in f:
            hi = jv.dec(f["le"])
        return lv.ints(lo, hi)
    if k == "dec":
        if "ge" in f:
            lo, hi = jv.dec(f["ge"]), jv.dec(f["le"])
            return st.one_of(st.decimals(min_value=lo, max_value=hi, allow_nan=False,
                                         allow_infinity=False, places=3),
                             st.sampled_from([lo, hi, D(0)]))
        return lv.decimals()
    if k == "double":
        return lv.doubles(width=32 if name == "Float" else 64, special=special_floats)
    if k == "bool":
        return st.booleans()
    if k == "text":
        if name == "AnyUri":
            return lv.uris()
        if "values" in f:
            return st.sampled_from(f["values"])
        if "pattern" in f:
            return PATTERN_GEN[f["pattern"]]
        lo = f.get("min_len", 0)
        hi = f.get("max_len", text_max)
        return lv.texts(lo, hi)
    if k == "dt":
        return st.one_of(lv.naive_datetimes(year_lo, year_hi),
                         lv.aware_datetimes(max(2, year_lo), min(9998, year_hi)))
    if k == "date":
        return lex.dates(year_lo, year_hi)
    if k == "time":
        return lv.times()
    if k == "td":
        return lv.durations()
    if k == "uuid":
        return st.uuids()
    if k == "bytes":
        return lv.binaries()
    raise ValueError(name)


class ValueGen(object):
    """strategies of tagged-JSON values for trefs of universe U"""

    def __init__(self, U, max_arr=3, poly=False, full=False, nil_items=False, **prim_kw):
        self.full = full          # never None, never empty: "fully populated" objects
        self.nil_items = nil_items     # None entries inside sequences of a nillable element type
        self.nil_unspellable = False   # formats that cannot spell null: mandatory => present
        self.U = U
        self.cspec = {c["name"]: c for c in U["classes"]}
        self.espec = {e["name"]: e for e in U["enums"]}
        self.max_arr = max_arr
        self.poly = poly
        self.prim_kw = prim_kw

    def all_fields(self, cname):
        c = self.cspec[cname]
        out = []
        if c["extends"] is not None:
            out.extend(self.all_fields(c["extends"]))
        out.extend((fn, t) for fn, t in c["fields"])
        return out

    def subclasses(self, cname):
        out = [cname]
        for c in self.U["classes"]:
            e = c["extends"]
            while e is not None:
                if e == cname:
                    out.append(c["name"])
                    break
                e = self.cspec[e]["extends"]
        return out

    def single(self, t, depth=0):
        k = t["k"]
        if k == "prim":
            return prim_values(t, **self.prim_kw).map(jv.enc)
        if k == "enum":
            return st.sampled_from(self.espec[t["n"]]["values"])
        if k in ("attr", "data"):
            return self.value(dict(t["of"], occ={"min": 0, "max": 1, "nillable": True}), depth)
        if k == "array":
            inner = dict(t["of"])
            # members of a wrapped array: spyne declares them minOccurs=0 maxOccurs=unbounded,
            # nillable per the member type
            elem = self._items(self.single(inner, depth + 1),
                               (inner.get("occ") or {}).get("nillable", True))
            sizes = st.sampled_from(([] if self.full else [0]) + [1, 2, self.max_arr, self.max_arr]
                                    + ([12] if depth == 0 else []))
            lst = sizes.flatmap(lambda n: st.lists(elem, min_size=n, max_size=n))
            if inner["k"] == "ref":
                lst = self._dup(lst)
            return lst
        if k == "ref":
            names = self.subclasses(t["n"]) if self.poly else [t["n"]]
            return st.sampled_from(names).flatmap(lambda cn: self.obj(cn, t["n"], depth))
        raise ValueError(k)

    def _dup(self, lst):
        """sequences of objects in which the first object occurs again (the same value twice:
        build.to_native turns equal objects into one shared instance)"""
        def again(t):
            l, where = t
            if len(l) < 2 or l[0] is None or where == 0:
                return l
            l = list(l)
            l[(where % (len(l) - 1)) + 1] = l[0]
            return l
        return st.tuples(lst, st.sampled_from([0, 0, 0, 1, 2, 3])).map(again)

    def _items(self, elem, nillable):
        if self.nil_items and nillable and not self.full:
            return st.one_of(elem, elem, elem, st.none())
        return elem

    def obj(self, cname, declared, depth):
        fields = self.all_fields(cname)
        d = {fn: self.value(ft, depth + 1) for fn, ft in fields}

        refs = [(fn, ft) for fn, ft in fields
                if ft["k"] == "ref" and (ft.get("occ") or {}).get("max", 1) == 1]

        def fin(t):
            x, share = t
            x = dict(x)
            if share:
                # two members of the same class holding the same object
                for i, (fa, ta) in enumerate(refs):
                    for fb, tb in refs[i + 1:]:
                        if ta["n"] == tb["n"] and x.get(fa) is not None and x.get(fb) is not None:
                            x[fb] = x[fa]
            o = {"f": {k: v for k, v in x.items() if v is not None}}
            o["$obj"] = cname
            return o
        return st.tuples(st.fixed_dictionaries(d), st.sampled_from([False, False, True])).map(fin)

    def value(self, t, depth=0):
        """value for a member/argument slot, honouring occurrence and nillability"""
        occ = t.get("occ") or {"min": 0, "max": 1, "nillable": True}
        mn, mx, nil = occ.get("min", 0), occ.get("max", 1), occ.get("nillable", True)
        if t["k"] in ("attr", "data"):
            if self.full:
                return self.single(t, depth)
            return st.one_of(st.none(), self.single(t, depth))
        one = self.single(t, depth)
        if not nil and t["k"] == "prim" and PRIM_KIND[t["t"]] == "bytes":
            # an empty byte string is identified with None, which a non-nillable element
            # does not admit when present
            one = one.filter(lambda j: j["$b"] != "")
        if mx != 1:
            top = self.max_arr if mx == "unbounded" else mx
            sizes = sorted(set(n for n in (mn, mn + 1, top, 2) if mn <= n <= top and n > 0))
            item = self._items(one, nil)
            lst = st.sampled_from(sizes).flatmap(lambda n: st.lists(item, min_size=n, max_size=n))
            if t["k"] == "ref":
                lst = self._dup(lst)
            if mn == 0 and not self.full:
                return st.one_of(st.none(), lst, lst)
            return lst
        can_none = ((mn == 0) or (nil and not self.nil_unspellable)) and not self.full
        if can_none and depth < 4:
            return st.one_of(st.none(), one, one, one)
        if can_none:
            return st.none()
        return one


# ---------------------------------------------------------------------------
class Ident(object):
    """the identifications a wire format forces (what it cannot distinguish)"""

    def __init__(self, empty_seq_is_none=True, empty_bytes_is_none=True,
                 empty_wrapped_is_none=False, empty_text_is_none=False,
                 none_obj_is_empty=False, leafless_obj_is_none=False, empty_objseq_kept=False):
        # an EMPTY sequence of objects must come back as an empty sequence, not as None
        # (forms that have a marker for it, e.g. 'x=empty' in flat dicts)
        self.empty_objseq_kept = empty_objseq_kept
        # an object none of whose members carries a leaf value is identified with None
        # (flat key/value forms cannot tell them apart)
        self.leafless_obj_is_none = leafless_obj_is_none
        self.empty_seq_is_none = empty_seq_is_none
        self.empty_bytes_is_none = empty_bytes_is_none
        self.empty_wrapped_is_none = empty_wrapped_is_none
        self.empty_text_is_none = empty_text_is_none


XML_IDENT = Ident()


def value_eq(B, t, got, exp, ident=XML_IDENT, path="", exact_class=False):
    """-> None if equal, else a string saying where and why not.
    B: build.Built, t: tref, got: native from spyne, exp: tagged JSON."""
    occ = t.get("occ") or {}
    if occ.get("max", 1) != 1 and t["k"] not in ("attr", "data"):
        if exp is None or (ident.empty_seq_is_none and exp == []):
            if exp == [] and ident.empty_objseq_kept and t["k"] == "ref" and got is None:
                return "%s: expected an empty sequence of objects, got None" % path
            if got is None or (ident.empty_seq_is_none and _is_empty_seq(got)):
                return None
            return "%s: expected no items, got %r" % (path, got)
        if got is None or not _is_seq(got):
            return "%s: expected %d items, got %r" % (path, len(exp), got)
        got = list(got)
        if len(got) != len(exp):
            return "%s: expected %d items, got %d" % (path, len(exp), len(got))
        t1 = dict(t, occ=dict(occ, max=1))
        for i, (g, e) in enumerate(zip(got, exp)):
            r = value_eq(B, t1, g, e, ident, "%s[%d]" % (path, i), exact_class)
            if r:
                return r
        return None
    k = t["k"]
    if k in ("attr", "data"):
        return value_eq(B, t["of"], got, exp, ident, path, exact_class)
    if k == "prim":
        kind = PRIM_KIND[t["t"]]
        e = jv.dec(exp)
        if e is None:
            if got is None:
                return None
            if kind == "bytes" and ident.empty_bytes_is_none and eq.bytes_of(got) == b"":
                return None
            return "%s: expected None, got %r" % (path, got)
        if kind == "bytes" and len(e) == 0 and ident.empty_bytes_is_none and got is None:
            return None
        if kind == "text" and e == "" and ident.empty_text_is_none and got is None:
            return None
        if not eq.leaf_eq(kind, got, e):
            return "%s: expected %s %r, got %r" % (path, t["t"], e, got)
        return None
    if k == "enum":
        if exp is None:
            return None if got is None else "%s: expected None, got %r" % (path, got)
        en = B.enums[t["n"]]
        if isinstance(got, str):            # reference decoders return the literal
            return None if got == exp else "%s: expected enum member %s, got %r" % (path, exp, got)
        if got is not getattr(en, exp):
            return "%s: expected enum member %s, got %r" % (path, exp, got)
        return None
    if k == "array":
        if exp is None:
            if got is None or (ident.empty_wrapped_is_none and _is_empty_seq(got)):
                return None
            return "%s: expected None, got %r" % (path, got)
        if got is None:
            if exp == [] and ident.empty_objseq_kept and t["of"]["k"] == "ref":
                return "%s: expected an empty array of objects, got None" % path
            if ident.empty_wrapped_is_none and exp == []:
                return None
            return "%s: expected array of %d, got None" % (path, len(exp))
        if not _is_seq(got):
            return "%s: expected array, got %r" % (path, got)
        got = list(got)
        if len(got) != len(exp):
            return "%s: expected %d elements, got %d" % (path, len(exp), len(got))
        for i, (g, e) in enumerate(zip(got, exp)):
            r = value_eq(B, t["of"], g, e, ident, "%s[%d]" % (path, i), exact_class)
            if r:
                return r
        return None
    if k == "ref":
        if exp is None:
            if got is not None and ident.leafless_obj_is_none:
                return value_eq(B, t, got, {"$obj": t["n"], "f": {}}, ident, path, False)
            return None if got is None else "%s: expected None, got %r" % (path, got)
        if got is None:
            return "%s: expected %s object, got None" % (path, exp.get("$obj", t["n"]))
        cname = exp.get("$obj", t["n"])
        cls = B.classes[cname] if exact_class else B.classes[t["n"]]
        if hasattr(got, "_cname"):      # ref_xml/ref_dict.RefObj
            if exact_class and got._cname != cname:
                return "%s: expected %s object, got %s" % (path, cname, got._cname)
            if not exact_class and not B.is_subclass(got._cname, t["n"]):
                return "%s: expected %s object, got %s" % (path, t["n"], got._cname)
        elif exact_class:
            if _orig(type(got)) is not _orig(cls):
                return "%s: expected instance of %s, got %r" % (path, cname, type(got))
        elif not isinstance(got, _orig(cls)) and not isinstance(got, cls):
            return "%s: expected instance of %s, got %r" % (path, t["n"], type(got))
        fields = B.all_fields(cname if exact_class else t["n"])
        for fn, ft in fields:
            r = value_eq(B, ft, getattr(got, fn, None), exp["f"].get(fn), ident,
                         "%s.%s" % (path, fn), exact_class)
            if r:
                return r
        return None
    raise ValueError(k)


def _orig(cls):
    o = getattr(cls, "__orig__", None)
    return cls if o is None else o


def _is_seq(v):
    return isinstance(v, (list, tuple)) or (hasattr(v, "__iter__")
                                            and not isinstance(v, (str, bytes, dict)))


def _is_empty_seq(v):
    return _is_seq(v) and len(list(v)) == 0


# ---------------------------------------------------------------------------
def classes_of(t, j, U=None, out=None):
    """labels describing the shape of a value (for non-triviality / distribution)"""
    out = set() if out is None else out
    if j is None:
        out.add("none")
        return out
    occ = t.get("occ") or {}
    if occ.get("max", 1) != 1 and t["k"] not in ("attr", "data"):
        out.add("unwrapped_array")
        if len(j) >= 2:
            out.add("unwrapped_array>=2")
        for x in j:
            classes_of(dict(t, occ=dict(occ, max=1)), x, U, out)
        return out
    k = t["k"]
    if k == "prim":
        out.add("prim:" + PRIM_KIND[t["t"]])
        if t.get("f"):
            out.add("facet")
    elif k == "enum":
        out.add("enum")
    elif k == "attr":
        out.add("xmlattr")
    elif k == "data":
        out.add("xmldata")
    elif k == "array":
        out.add("wrapped_array")
        if len(j) >= 2:
            out.add("wrapped_array>=2")
        if len(j) == 0:
            out.add("wrapped_array_empty")
        if len(j) > 10:
            out.add("array>10")
        for x in j:
            classes_of(t["of"], x, U, out)
    elif k == "ref":
        out.add("object")
        if j.get("$obj", t["n"]) != t["n"]:
            out.add("subclass_instance")
        if U is not None:
            cs = {c["name"]: c for c in U["classes"]}

            def fields(n):
                c = cs[n]
                r = fields(c["extends"]) if c["extends"] else []
                return r + c["fields"]
            if cs[j.get("$obj", t["n"])]["extends"]:
                out.add("inherited_fields")
            for fn, ft in fields(j.get("$obj", t["n"])):
                if fn in j["f"]:
                    sub = classes_of(ft, j["f"][fn], U, set())
                    if "object" in sub:
                        out.add("nested_object")
                    out.update(sub)
    return out
