"""Property-based testing / fuzzing machinery for the 18 spyne properties.

Import order matters: `pbt.env` must be imported before anything imports spyne
so that the tree under test (/repo, or $SPYNE_UNDER_TEST) is first on sys.path.
"""
from . import env  # noqa: F401
