"""Tagged-JSON encoding of native leaf values so that cases are pure data."""
import datetime as dtm
import decimal
import uuid


def enc(v):
    if v is None or isinstance(v, (bool, str)):
        return v
    if isinstance(v, int):
        return {"$int": str(v)}
    if isinstance(v, decimal.Decimal):
        return {"$dec": str(v)}
    if isinstance(v, float):
        return {"$f": repr(v)}
    if isinstance(v, dtm.datetime):
        off = v.utcoffset()
        return {"$dt": v.replace(tzinfo=None).isoformat(),
                "off": None if off is None else int(off.total_seconds() // 60)}
    if isinstance(v, dtm.date):
        return {"$d": v.isoformat()}
    if isinstance(v, dtm.time):
        return {"$t": v.isoformat()}
    if isinstance(v, dtm.timedelta):
        return {"$td": [v.days, v.seconds, v.microseconds]}
    if isinstance(v, (bytes, bytearray)):
        return {"$b": bytes(v).hex()}
    if isinstance(v, uuid.UUID):
        return {"$u": str(v)}
    if isinstance(v, (list, tuple)):
        return [enc(x) for x in v]
    if isinstance(v, dict):
        return {k: enc(x) for k, x in v.items()}
    raise TypeError("cannot encode %r" % (v,))


def dec(j):
    if j is None or isinstance(j, (bool, str, int, float)):
        return j
    if isinstance(j, list):
        return [dec(x) for x in j]
    if "$int" in j:
        return int(j["$int"])
    if "$dec" in j:
        return decimal.Decimal(j["$dec"])
    if "$f" in j:
        return float(j["$f"])
    if "$dt" in j:
        v = dtm.datetime.fromisoformat(j["$dt"])
        if j.get("off") is not None:
            v = v.replace(tzinfo=dtm.timezone(dtm.timedelta(minutes=j["off"])))
        return v
    if "$d" in j:
        return dtm.date.fromisoformat(j["$d"])
    if "$t" in j:
        return dtm.time.fromisoformat(j["$t"])
    if "$td" in j:
        d, s, us = j["$td"]
        return dtm.timedelta(days=d, seconds=s, microseconds=us)
    if "$b" in j:
        return bytes.fromhex(j["$b"])
    if "$u" in j:
        return uuid.UUID(j["$u"])
    return {k: dec(x) for k, x in j.items()}
