"""Deterministic cooperative scheduler for real threads.

Real `threading.Thread`s are made cooperative by a `sys.settrace` hook installed in each
worker: at every *yield point* the running worker asks the scheduler whether it has to
hand the baton to another worker.  Exactly one worker runs at any time, so an execution
is a function of the *schedule*, which is pure data:

    {"mode": "pre", "prio": [t0, t1, ...], "pre": [[step, thread], ...]}
        non-preemptive except at the listed global step indexes, where the baton goes to
        `thread` (if it is runnable).  When the running worker finishes or blocks, the
        first runnable worker in `prio` order continues.
    {"mode": "pct", "prio": [t0, t1, ...], "chg": [step, ...]}
        PCT (Burckhardt et al.): the runnable worker of highest priority runs; at each
        listed global step the running worker's priority drops below all others.

A *step* is one yield point reached by any worker (global counter, starts at 0).

Yield points (classified per code object by `YieldMap`):
    LINE  every `line` event of the function (shared-state code); within one activation of
          the function a line is a yield point only the first `line_cap` (2) times it is
          reached, which collapses the iterations >= 3 of a loop / comprehension
    CALL  the `call` event of the function (entry, generator resumption)
    IGN   nothing (and no tracing cost beyond one dict lookup per call)

Locks owned by the code under test must be replaced by `SchedLock` / `SchedRLock`
(`acquire` of a lock held by another worker marks the caller blocked and passes the baton).
All workers blocked = deadlock (reported).  A worker that does not reach a yield point for
`watchdog` seconds (blocked in an un-instrumented primitive) makes the run *inconclusive*:
the scheduler lets every worker run free and joins them.
"""
import os
import sys
import threading

IGN, CALL, LINE = 0, 1, 2

READY, BLOCKED, DONE = 0, 1, 2


class SchedAbort(BaseException):
    """raised inside a worker to unwind it when the run is abandoned (deadlock)"""


class YieldMap(object):
    """code object -> IGN / CALL / LINE, by path relative to `root` and function name"""

    def __init__(self, root, line_files=(), line_funcs=(), call_prefixes=()):
        self.root = os.path.join(os.path.abspath(root), "")
        self.line_files = frozenset(line_files)
        self.line_funcs = frozenset(line_funcs)      # (relative file, function name)
        self.call_prefixes = tuple(call_prefixes)
        self.kinds = {}
        self.names = {}

    def classify(self, code):
        fn = code.co_filename
        kind = IGN
        if fn.startswith(self.root):
            rel = fn[len(self.root):]
            if rel in self.line_files or (rel, code.co_name) in self.line_funcs:
                kind = LINE
            elif rel.startswith(self.call_prefixes):
                kind = CALL
            if kind != IGN:
                self.names[code] = "%s:%s" % (rel, code.co_name)
        self.kinds[code] = kind
        return kind


class Worker(object):
    def __init__(self, idx, fn):
        self.idx = idx
        self.fn = fn
        self.sem = threading.Semaphore(0)
        self.state = READY
        self.steps = 0
        self.result = None
        self.escaped = None      # BaseException other than SchedAbort leaving fn
        self.aborted = False
        self.waiting = None
        self.thread = None


class Scheduler(object):
    def __init__(self, ymap, schedule, watchdog=2.0, record=False, line_cap=2):
        self.ymap = ymap
        self.line_cap = line_cap
        self.mode = schedule.get("mode", "pre")
        self.events = {}
        if self.mode == "pre":
            for step, t in schedule.get("pre", []):
                self.events.setdefault(int(step), []).append(int(t))
        elif self.mode == "pct":
            for step in schedule.get("chg", []):
                self.events.setdefault(int(step), []).append(-1)
        else:
            raise ValueError(self.mode)
        self._prio0 = [int(x) for x in schedule.get("prio", [])]
        self.watchdog = watchdog
        self.workers = []
        self.prio = []
        self.step = 0
        self.current = None
        self.dirty = False
        self.aborted = False
        self.deadlock = None       # description if a genuine deadlock was seen
        self.watchdog_fired = False
        self.stuck = []            # worker indexes still alive after the final join
        self.done_evt = threading.Event()
        self._fin_lock = threading.Lock()
        self._ident = {}
        self.preemptions = []      # (step, from idx, to idx, site name, kind)
        self.noop_events = 0
        self.record = record
        self.trace = []            # (worker idx, site, lineno) if record

    # ------------------------------------------------------------------ set-up
    def spawn(self, fn):
        w = Worker(len(self.workers), fn)
        self.workers.append(w)
        return w

    def worker(self):
        """the Worker of the calling thread (None for foreign threads)"""
        return self._ident.get(threading.get_ident())

    # ------------------------------------------------------------------ policy
    def _pick(self):
        ws = self.workers
        for i in self.prio:
            if ws[i].state == READY:
                return ws[i]
        return None

    def _decide(self, step, cur, site, kind):
        ev = self.events.get(step)
        if ev is None:
            if self.dirty and self.mode == "pct":
                self.dirty = False
                nxt = self._pick()
                return nxt if nxt is not None else cur
            return cur
        nxt = cur
        for t in ev:
            if t < 0:                                   # pct: current drops to the bottom
                self.prio.remove(cur.idx)
                self.prio.append(cur.idx)
                cand = self._pick()
            else:
                if not 0 <= t < len(self.workers):
                    cand = None
                else:
                    cand = self.workers[t]
                    if cand.state != READY:
                        cand = None
                    else:
                        self.prio.remove(t)
                        self.prio.insert(0, t)
            if cand is None or cand is nxt:
                self.noop_events += 1
                continue
            self.preemptions.append((step, nxt.idx, cand.idx, site, kind))
            nxt = cand
        return nxt

    # ------------------------------------------------------------------ baton
    def _switch(self, cur, nxt):
        self.current = nxt
        nxt.sem.release()
        cur.sem.acquire()
        if self.aborted and self.deadlock is not None:
            raise SchedAbort()

    def _yield(self, w, code, lineno, kind):
        if self.aborted:
            return
        step = self.step
        self.step = step + 1
        w.steps += 1
        if self.record:
            self.trace.append((w.idx, self.ymap.names.get(code), lineno))
        if self.events or self.dirty:
            nxt = self._decide(step, w, self.ymap.names.get(code), kind)
            if nxt is not w:
                self._switch(w, nxt)

    def _make_trace(self, w):
        kinds = self.ymap.kinds
        classify = self.ymap.classify
        sched = self
        cap = self.line_cap

        def glob(frame, event, arg):
            code = frame.f_code
            kind = kinds.get(code)
            if kind is None:
                kind = classify(code)
            if kind == IGN or sched.aborted:
                return None
            if kind == CALL:
                sched._yield(w, code, frame.f_lineno, CALL)
                return None
            seen = {}            # per frame activation: line -> visits that were yield points

            def local(frame, event, arg):
                if event == "line":
                    ln = frame.f_lineno
                    c = seen.get(ln, 0)
                    if c < cap:
                        seen[ln] = c + 1
                        sched._yield(w, code, ln, LINE)
                return local
            return local

        return glob

    # ------------------------------------------------------------------ blocking (locks)
    def block_on(self, w, lock):
        """called by SchedLock.acquire when `lock` is held by another worker"""
        if self.aborted:
            raise SchedAbort()
        w.state = BLOCKED
        w.waiting = lock
        nxt = self._pick()
        if nxt is None:
            self._deadlock()
            raise SchedAbort()
        self._switch(w, nxt)
        w.waiting = None

    def unblock(self, lock):
        for w in self.workers:
            if w.state == BLOCKED and w.waiting is lock:
                w.state = READY
                self.dirty = True

    def _deadlock(self):
        parts = []
        for w in self.workers:
            if w.state == BLOCKED:
                lk = w.waiting
                parts.append("worker %d waits for %s held by worker %s"
                             % (w.idx, getattr(lk, "name", "lock"),
                                getattr(getattr(lk, "owner", None), "idx", "?")))
        self.deadlock = "; ".join(parts)
        self.aborted = True
        me = self.worker()
        for w in self.workers:
            if w.state != DONE and w is not me:
                w.sem.release()

    # ------------------------------------------------------------------ worker life cycle
    def _body(self, w):
        self._ident[threading.get_ident()] = w
        w.sem.acquire()                      # parked until first scheduled
        try:
            if not self.aborted:
                sys.settrace(self._make_trace(w))
            try:
                w.result = w.fn()
            finally:
                sys.settrace(None)
        except SchedAbort:
            w.aborted = True
        except BaseException as e:           # noqa: recorded, never propagated
            w.escaped = e
        self._finish(w)

    def _finish(self, w):
        with self._fin_lock:
            w.state = DONE
            if self.aborted:
                if all(x.state == DONE for x in self.workers):
                    self.done_evt.set()
                return
            # a finishing worker may still own scheduler-aware locks: that is a deadlock
            # for the waiters, found below when nobody is runnable
            nxt = self._pick()
            if nxt is not None:
                self.current = nxt
                nxt.sem.release()
                return
            if any(x.state == BLOCKED for x in self.workers):
                self._deadlock()
                if all(x.state == DONE for x in self.workers):
                    self.done_evt.set()
                return
            self.done_evt.set()

    # ------------------------------------------------------------------ run
    def run(self):
        n = len(self.workers)
        self.prio = [i for i in self._prio0 if 0 <= i < n]
        for i in range(n):
            if i not in self.prio:
                self.prio.append(i)
        for w in self.workers:
            w.thread = threading.Thread(target=self._body, args=(w,), daemon=True,
                                        name="sched-worker-%d" % w.idx)
            w.thread.start()
        first = self._pick()
        self.current = first
        first.sem.release()
        tick = 0.25
        last, stalled = -1, 0.0
        while not self.done_evt.wait(tick):
            if self.step == last:
                stalled += tick
                if stalled >= self.watchdog:
                    self.watchdog_fired = True
                    self.aborted = True          # every hook becomes a no-op: free run
                    for w in self.workers:
                        w.sem.release()
                    break
            else:
                last, stalled = self.step, 0.0
        for w in self.workers:
            w.thread.join(3.0 if self.aborted else 10.0)
        self.stuck = [w.idx for w in self.workers if w.thread.is_alive()]
        return self

    @property
    def inconclusive(self):
        return self.watchdog_fired or bool(self.stuck)


class SchedLock(object):
    """drop-in for threading.Lock / RLock owned by an object under test"""

    def __init__(self, sched, name="lock", reentrant=False):
        self.sched = sched
        self.name = name
        self.reentrant = reentrant
        self.owner = None
        self.count = 0
        self.acquisitions = 0
        self.contended = 0

    def acquire(self, blocking=True, timeout=-1):
        s = self.sched
        me = s.worker()
        if me is None:
            raise RuntimeError("SchedLock %s used by a thread the scheduler does not know"
                               % self.name)
        if self.owner is me and self.reentrant:
            self.count += 1
            return True
        while self.owner is not None:
            # (a non-reentrant lock re-acquired by its owner blocks for ever, as the real one)
            if not blocking:
                return False
            self.contended += 1
            s.block_on(me, self)
        self.owner = me
        self.count = 1
        self.acquisitions += 1
        return True

    def release(self):
        if self.owner is None:
            raise RuntimeError("release unlocked lock")
        if self.reentrant and self.owner is not self.sched.worker():
            raise RuntimeError("cannot release un-acquired lock")
        self.count -= 1
        if self.count == 0:
            self.owner = None
            self.sched.unblock(self)

    def locked(self):
        return self.owner is not None

    __enter__ = acquire

    def __exit__(self, *a):
        self.release()


def SchedRLock(sched, name="rlock"):
    return SchedLock(sched, name, reentrant=True)
