"""libxml2 as the XML Schema processor: is `text` a literal of xs:<type>?"""
from lxml import etree

XS = "http://www.w3.org/2001/XMLSchema"
_cache = {}


def _schema(xs_type, pattern=None):
    key = (xs_type, pattern)
    sch = _cache.get(key)
    if sch is None:
        if pattern is None:
            doc = ('<xs:schema xmlns:xs="%s"><xs:element name="v" type="xs:%s"/></xs:schema>'
                   % (XS, xs_type))
        else:
            root = etree.Element("{%s}schema" % XS, nsmap={"xs": XS})
            el = etree.SubElement(root, "{%s}element" % XS, name="v")
            stp = etree.SubElement(el, "{%s}simpleType" % XS)
            r = etree.SubElement(stp, "{%s}restriction" % XS, base="xs:%s" % xs_type)
            etree.SubElement(r, "{%s}pattern" % XS, value=pattern)
            doc = etree.tostring(root)
        sch = etree.XMLSchema(etree.fromstring(doc))
        _cache[key] = sch
    return sch


def valid(xs_type, text, pattern=None):
    """True iff <v>text</v> validates.  text must consist of XML Chars."""
    el = etree.Element("v")
    el.text = text
    # re-parse so that libxml2 sees exactly what a receiver would see
    doc = etree.fromstring(etree.tostring(el))
    return _schema(xs_type, pattern).validate(doc)
