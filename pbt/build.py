"""spec (pure data) -> fresh spyne classes, services with recording functions, Application."""
import itertools
import json

from . import env  # noqa: F401  (path set-up)
from . import eq, jv

_uniq = itertools.count()


def _prims():
    from spyne.model import primitive as P
    from spyne.model.binary import ByteArray
    d = {n: getattr(P, n) for n in (
        "Integer", "UnsignedInteger", "Integer8", "Integer16", "Integer32", "Integer64",
        "UnsignedInteger8", "UnsignedInteger16", "UnsignedInteger32", "UnsignedInteger64",
        "Decimal", "Double", "Float", "Boolean", "Unicode", "AnyUri", "DateTime", "Date",
        "Time", "Duration", "Uuid")}
    d["ByteArray"] = ByteArray
    return d


class Built(object):
    """live classes for one universe spec"""

    def __init__(self, U, hold=()):
        """hold: names of classes that are declared later, by declare(name)"""
        from spyne.model.enum import Enum
        self.U = U
        self.prims = _prims()
        self.classes = {}
        self.enums = {}
        self.cspec = {c["name"]: c for c in U["classes"]}
        self.espec = {e["name"]: e for e in U["enums"]}
        for e in U["enums"]:
            en = Enum(*e["values"], type_name=e["name"])
            en.__namespace__ = e["ns"]
            self.enums[e["name"]] = en
        for c in U["classes"]:
            if c["name"] not in hold:
                self.declare(c["name"])

    def declare(self, name):
        from spyne.model.complex import ComplexModel, ComplexModelMeta
        c = self.cspec[name]
        base = ComplexModel if c["extends"] is None else self.classes[c["extends"]]
        ti = [(fn, self.type_of(t)) for fn, t in c["fields"]]
        d = {"__namespace__": c["ns"], "_type_info": ti}
        if c.get("type_name"):
            d["__type_name__"] = c["type_name"]
        self.classes[c["name"]] = ComplexModelMeta(c["name"], (base,), d)
        return self.classes[c["name"]]

    # ------------------------------------------------------------------
    def base_type(self, t):
        from spyne.model.complex import Array, XmlAttribute, XmlData
        k = t["k"]
        if k == "prim":
            cls = self.prims[t["t"]]
            f = {kk: jv.dec(vv) for kk, vv in t.get("f", {}).items()}
            if f.pop("pa_json_exc", None):
                # per-protocol attributes: the member is excluded from JsonDocument output only
                from spyne.protocol.json import JsonDocument
                f["pa"] = {JsonDocument: dict(exc=True)}
            if f:
                if t["t"] == "ByteArray":
                    cls = cls(**f)
                else:
                    cls = cls.customize(**f)
            return cls
        if k == "ref":
            return self.classes[t["n"]]
        if k == "enum":
            return self.enums[t["n"]]
        if k == "array":
            return Array(self.type_of(t["of"]))
        if k == "attr":
            return XmlAttribute(self.type_of(t["of"]), **({"use": t["use"]} if t.get("use") else {}))
        if k == "data":
            return XmlData(self.type_of(t["of"]))
        raise ValueError(k)

    def type_of(self, t):
        cls = self.base_type(t)
        occ = t.get("occ")
        if occ is not None and t["k"] not in ("attr", "data"):
            from decimal import Decimal
            mx = occ.get("max", 1)
            kw = {"min_occurs": occ.get("min", 0),
                  "max_occurs": Decimal("inf") if mx == "unbounded" else mx,
                  "nillable": occ.get("nillable", True)}
            cls = cls.customize(**kw)
        return cls

    # ------------------------------------------------------------------
    def all_fields(self, cname):
        """[(fname, tref)] ancestors first"""
        c = self.cspec[cname]
        out = []
        if c["extends"] is not None:
            out.extend(self.all_fields(c["extends"]))
        out.extend((fn, t) for fn, t in c["fields"])
        return out

    def is_subclass(self, sub, base):
        while sub is not None:
            if sub == base:
                return True
            sub = self.cspec[sub]["extends"]
        return False

    def to_native(self, t, j, _memo=None):
        """tagged JSON value -> native value / spyne instance for type reference t.
        Equal object values inside one value become ONE shared instance (an object graph
        with aliasing but without cycles), the way user code builds `Segment(start=p, end=p)`."""
        if j is None:
            return None
        if _memo is None:
            _memo = {}
        occ = t.get("occ") or {}
        if occ.get("max", 1) != 1 and t["k"] not in ("attr", "data"):
            t1 = dict(t, occ=dict(occ, max=1))
            return [self.to_native(t1, x, _memo) for x in j]
        k = t["k"]
        if k == "prim":
            v = jv.dec(j)
            if t["t"] == "ByteArray":
                return eq.chunks_of(v)
            return v
        if k == "enum":
            return getattr(self.enums[t["n"]], j)
        if k in ("attr", "data"):
            return self.to_native(t["of"], j, _memo)
        if k == "array":
            return [self.to_native(t["of"], x, _memo) for x in j]
        if k == "ref":
            cname = j.get("$obj", t["n"])
            key = (cname, json.dumps(j, sort_keys=True, default=str))
            if key in _memo:
                return _memo[key]
            cls = self.classes[cname]
            inst = cls()
            for fn, ft in self.all_fields(cname):
                if fn in j["f"]:
                    setattr(inst, fn, self.to_native(ft, j["f"][fn], _memo))
            _memo[key] = inst
            return inst
        raise ValueError(k)


class Recorder(object):
    def __init__(self):
        self.calls = []      # (method name, args tuple, in_header)
        self.script = {}     # method name -> callable(ctx, args) -> result

    def reset(self):
        del self.calls[:]


def make_service(B, sname, mspecs, rec, extra=None):
    """mspecs: [method spec]; each method records its call and returns rec.script[name]"""
    from spyne import rpc, Service
    ns = {}
    for m in mspecs:
        def mk(mname):
            def f(ctx, *args):
                rec.calls.append((mname, args, ctx.in_header))
                fn = rec.script.get(mname)
                if fn is None:
                    return None
                return fn(ctx, args)
            f.__name__ = mname
            return f
        params = [B.type_of(t) for _, t in m["args"]]
        kw = {"_args": [n for n, _ in m["args"]]}
        if len(m["ret"]) == 1:
            kw["_returns"] = B.type_of(m["ret"][0])
        elif len(m["ret"]) > 1:
            kw["_returns"] = [B.type_of(t) for t in m["ret"]]
        if m.get("style", "wrapped") != "wrapped":
            kw["_body_style"] = m["style"]
        for k in ("_operation_name", "_in_message_name", "_out_message_name",
                  "_out_variable_name", "_out_variable_names", "_port_type"):
            if m.get(k) is not None:
                kw[k] = m[k]
        if m.get("wire"):
            # the documented decorator option that renames arguments on the wire
            kw["_in_arg_names"] = dict(m["wire"])
        if m.get("in_header"):
            kw["_in_header"] = tuple(B.classes[n] for n in m["in_header"])
        if m.get("out_header"):
            kw["_out_header"] = tuple(B.classes[n] for n in m["out_header"])
        if m.get("throws"):
            kw["_throws"] = [B.faults[n] for n in m["throws"]]
        if m.get("patterns"):
            from spyne.protocol.http import HttpPattern
            kw["_patterns"] = [HttpPattern(**p) for p in m["patterns"]]
        if extra:
            kw.update(extra(m) or {})
        ns[m["name"]] = rpc(*params, **kw)(mk(m["name"]))
    d = dict(ns)
    return type(sname, (Service,), d)


def make_app(services, tns, in_protocol, out_protocol, name=None):
    from spyne import Application
    return Application(services, tns=tns, name=name or ("App%d" % next(_uniq)),
                       in_protocol=in_protocol, out_protocol=out_protocol)


def clear_memo():
    """state hygiene between cases: spyne's memoize tables hold classes of earlier cases"""
    try:
        from spyne.util import memo
        for m in list(getattr(memo.memoize, "registry", [])) if hasattr(memo, "memoize") else []:
            try:
                m.reset()
            except Exception:
                pass
    except Exception:
        pass
