"""Reference dict-document codec (JSON / YAML / MessagePack conventions documented by spyne):
method name as the single key, objects as maps (or positional lists), numbers as numbers,
decimals/dates/uuids/durations as strings, bytes as base64 text or msgpack bin; with
ignore_wrappers=False every complex object is wrapped in a single-key map named after its type.
Imports nothing from spyne."""
import base64
import decimal
import uuid as uuidm

from . import jv, lex
from .ref_xml import RefObj
from .spec import PRIM_KIND


class Cfg(object):
    def __init__(self, fmt, wrappers=False, complex_as="dict", str_keys=True, poly=False):
        self.fmt = fmt                  # json | yaml | msgpack
        self.wrappers = wrappers        # ignore_wrappers=False
        self.complex_as = complex_as    # dict | list
        self.str_keys = str_keys        # msgpack: str (True) or bin (False) map keys
        self.poly = poly


class Codec(object):
    def __init__(self, U, cfg):
        self.U = U
        self.cfg = cfg
        self.cspec = {c["name"]: c for c in U["classes"]}

    def fields(self, cname):
        c = self.cspec[cname]
        out = []
        if c["extends"] is not None:
            out.extend(self.fields(c["extends"]))
        out.extend(c["fields"])
        return out

    def key(self, k):
        if self.cfg.fmt == "msgpack" and not self.cfg.str_keys:
            return k.encode("utf8")
        return k

    # ------------------------------------------------------------- encode
    def leaf(self, t, v):
        kind = PRIM_KIND[t["t"]]
        n = jv.dec(v)
        fmt = self.cfg.fmt
        if kind == "int":
            if fmt == "msgpack" and not (-2 ** 63 <= n < 2 ** 64):
                return str(n)
            return n
        if kind == "dec":
            return lex.print_decimal(n)
        if kind == "double":
            return float(n)
        if kind in ("bool", "text"):
            return n
        if kind == "dt":
            return lex.print_datetime(n)
        if kind == "date":
            return n.isoformat()
        if kind == "time":
            return lex.print_time(n)
        if kind == "td":
            return lex.print_duration(n)
        if kind == "uuid":
            return str(n)
        if kind == "bytes":
            enc = t.get("f", {}).get("encoding")
            if fmt == "msgpack" and enc is None:
                return n
            if enc == "hex":
                return n.hex()
            return base64.b64encode(n).decode("ascii")
        raise ValueError(kind)

    def encode_slot(self, t, v):
        if v is None:
            return None
        occ = t.get("occ") or {}
        if occ.get("max", 1) != 1 and t["k"] not in ("attr", "data"):
            t1 = dict(t, occ=dict(occ, max=1))
            return [self.encode_slot(t1, x) for x in v]
        k = t["k"]
        if k == "prim":
            return self.leaf(t, v)
        if k == "enum":
            return v
        if k in ("attr", "data"):
            return self.encode_slot(t["of"], v)
        if k == "array":
            return [self.encode_slot(t["of"], x) for x in v]
        if k == "ref":
            return self.encode_obj(v.get("$obj", t["n"]), v["f"])
        raise ValueError(k)

    def encode_obj(self, cname, f):
        fields = self.fields(cname)
        if self.cfg.complex_as == "list":
            return [self.encode_slot(ft, f.get(fn)) for fn, ft in fields]
        d = {}
        for fn, ft in fields:
            x = self.encode_slot(ft, f.get(fn))
            if x is not None or (ft.get("occ") or {}).get("min", 0) >= 1:
                d[self.key(fn)] = x       # a mandatory nillable member is sent as null
        if self.cfg.wrappers:
            c = self.cspec[cname]
            return {self.key(c.get("type_name") or cname): d}
        return d

    def request(self, m, args, rpc=False):
        if rpc:
            return [0, 7, m["name"], [self.encode_slot(t, v) for (_, t), v in zip(m["args"], args)]]
        if m.get("style") == "bare" and m["args"]:
            (an, t), v = m["args"][0], args[0]
            body = self.encode_slot(t, v)
            if self.cfg.wrappers and t["k"] == "ref" and isinstance(body, dict) and len(body) == 1:
                # the method key is the wrapper of the argument object
                body, = body.values()
        elif self.cfg.complex_as == "list":
            body = [self.encode_slot(t, v) for (_, t), v in zip(m["args"], args)]
        else:
            body = {}
            wire = m.get("wire") or {}
            for (an, t), v in zip(m["args"], args):
                x = self.encode_slot(t, v)
                if x is not None or (t.get("occ") or {}).get("min", 0) >= 1:
                    body[self.key(wire.get(an, an))] = x
        return {self.key(m["name"]): body}

    # ------------------------------------------------------------- decode
    @staticmethod
    def _s(x):
        return x.decode("utf8") if isinstance(x, bytes) else x

    def parse_leaf(self, t, x):
        kind = PRIM_KIND[t["t"]]
        if kind == "bytes":
            enc = t.get("f", {}).get("encoding")
            if self.cfg.fmt == "msgpack" and isinstance(x, bytes) and enc is None:
                return x
            x = self._s(x)
            if enc == "hex":
                return lex.parse_hex(x)
            return lex.parse_base64(x)
        if kind == "int":
            if isinstance(x, bool):
                raise lex.LexError("bool where integer expected")
            if isinstance(x, int):
                return x
            return lex.parse_integer(self._s(x))
        if kind == "double":
            if isinstance(x, bool) or not isinstance(x, (int, float)):
                raise lex.LexError("number expected, got %r" % (x,))
            return x
        if kind == "bool":
            if not isinstance(x, bool):
                raise lex.LexError("bool expected, got %r" % (x,))
            return x
        x = self._s(x)
        if not isinstance(x, str):
            raise lex.LexError("text expected for %s, got %r" % (t["t"], x))
        if kind == "dec":
            return decimal.Decimal(x)
        if kind == "text":
            return x
        if kind == "dt":
            return lex.parse_datetime(x)
        if kind == "date":
            return lex.parse_date(x)
        if kind == "time":
            return lex.parse_time(x)
        if kind == "td":
            return lex.parse_duration(x)
        if kind == "uuid":
            return uuidm.UUID(x)
        raise ValueError(kind)

    def decode_slot(self, t, x):
        if x is None:
            return None
        occ = t.get("occ") or {}
        if occ.get("max", 1) != 1 and t["k"] not in ("attr", "data"):
            if not isinstance(x, (list, tuple)):
                raise lex.LexError("list expected, got %r" % (x,))
            t1 = dict(t, occ=dict(occ, max=1))
            return [self.decode_slot(t1, y) for y in x]
        k = t["k"]
        if k == "prim":
            return self.parse_leaf(t, x)
        if k == "enum":
            return self._s(x)
        if k in ("attr", "data"):
            return self.decode_slot(t["of"], x)
        if k == "array":
            if not isinstance(x, (list, tuple)):
                raise lex.LexError("list expected, got %r" % (x,))
            return [self.decode_slot(t["of"], y) for y in x]
        if k == "ref":
            return self.decode_obj(t["n"], x)
        raise ValueError(k)

    def decode_obj(self, cname, x):
        if self.cfg.complex_as == "list":
            fields = self.fields(cname)
            if not isinstance(x, (list, tuple)) or len(x) != len(fields):
                raise lex.LexError("positional object of %d members expected, got %r"
                                   % (len(fields), x))
            o = RefObj(cname)
            for (fn, ft), y in zip(fields, x):
                setattr(o, fn, self.decode_slot(ft, y))
            return o
        if not isinstance(x, dict):
            raise lex.LexError("map expected for %s, got %r" % (cname, x))
        if self.cfg.wrappers:
            if len(x) != 1:
                raise lex.LexError("wrapper map with one key expected, got %r" % (x,))
            (wk, x), = x.items()
            wk = self._s(wk)
            names = [c["name"] for c in self.U["classes"]
                     if (c.get("type_name") or c["name"]) == wk]
            if not names:
                raise lex.LexError("wrapper key %r names no class" % wk)
            # type names need not be unique across namespaces: the declared class (or one
            # derived from it) decides among equally named candidates
            rel = [n for n in names if n == cname or self._derives(n, cname)]
            cname = (rel or names)[0]
        o = RefObj(cname)
        x = {self._s(k): v for k, v in x.items()}
        known = set()
        for fn, ft in self.fields(cname):
            known.add(fn)
            setattr(o, fn, self.decode_slot(ft, x.get(fn)))
        extra = set(x) - known
        if extra:
            raise lex.LexError("unknown members %r in %s" % (sorted(extra), cname))
        return o

    def _derives(self, sub, base):
        cs = {c["name"]: c for c in self.U["classes"]}
        e = cs[sub]["extends"]
        while e is not None:
            if e == base:
                return True
            e = cs[e]["extends"]
        return False

    def response(self, m, doc, rpc=False):
        """-> list of decoded return values"""
        rname = m["name"] + "Response"
        if len(m["ret"]) == 1:
            names = [m["name"] + "Result"]
        else:
            names = ["%sResult%d" % (m["name"], i) for i in range(len(m["ret"]))]
        if rpc:
            if not isinstance(doc, (list, tuple)) or len(doc) != 4 or doc[0] != 1:
                raise lex.LexError("msgpack-rpc response expected, got %r" % (doc,))
            doc = doc[3]
            return self._members(m, names, doc, wrapped=False, unwrap_single=False)
        if self.cfg.wrappers and m.get("style") == "bare":
            # the reply of a bare method is the returned value itself
            return self._members(m, names, doc, wrapped=False, unwrap_single=True)
        if self.cfg.wrappers:
            if not isinstance(doc, dict) or len(doc) != 1:
                raise lex.LexError("response wrapper expected, got %r" % (doc,))
            (k, body), = doc.items()
            if self._s(k) != rname:
                raise lex.LexError("response wrapper key %r, expected %r" % (k, rname))
            return self._members(m, names, body, wrapped=True, unwrap_single=False)
        return self._members(m, names, doc, wrapped=False, unwrap_single=True)

    def _members(self, m, names, body, wrapped, unwrap_single):
        if not m["ret"]:
            return []
        if unwrap_single and len(m["ret"]) == 1:
            return [self.decode_slot(m["ret"][0], body)]
        if self.cfg.complex_as == "list":
            if body is None:
                return [None] * len(names)
            return [self.decode_slot(t, y) for t, y in zip(m["ret"], body)]
        if body is None:
            return [None] * len(names)
        if not isinstance(body, dict):
            raise lex.LexError("response map expected, got %r" % (body,))
        body = {self._s(k): v for k, v in body.items()}
        return [self.decode_slot(t, body.get(n)) for n, t in zip(names, m["ret"])]
