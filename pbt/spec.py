"""Hypothesis strategies producing *specs* (pure JSON data) of type universes, service
signatures and applications.  Nothing here imports spyne.

tref  := {"k":"prim","t":<name>,"f":{facets}}            primitive (facets are tagged JSON)
       | {"k":"ref","n":<class name>}                    complex class of the universe
       | {"k":"enum","n":<enum name>}
       | {"k":"array","of":tref}                         wrapped Array(T)
       | {"k":"attr","of":prim tref}                     XmlAttribute(T)
       | {"k":"data","of":prim tref}                     XmlData(T)
      each may carry "occ": {"min":0|1, "max":1|n|"unbounded", "nillable":bool}

universe := {"tns":str, "nss":[ns...], "classes":[{"name","ns","extends","fields":[[fname,tref]..]}],
             "enums":[{"name","ns","values":[..]}]}
"""
import hashlib
import json

from hypothesis import strategies as st

from . import jv

SIGNED = {"Integer8": 8, "Integer16": 16, "Integer32": 32, "Integer64": 64}
UNSIGNED = {"UnsignedInteger8": 8, "UnsignedInteger16": 16, "UnsignedInteger32": 32,
            "UnsignedInteger64": 64}
INT_TYPES = ["Integer", "UnsignedInteger"] + sorted(SIGNED) + sorted(UNSIGNED)
PRIM_KIND = {
    "Decimal": "dec", "Double": "double", "Float": "double", "Boolean": "bool",
    "Unicode": "text", "AnyUri": "text", "DateTime": "dt", "Date": "date", "Time": "time",
    "Duration": "td", "Uuid": "uuid", "ByteArray": "bytes",
}
for _t in INT_TYPES:
    PRIM_KIND[_t] = "int"

# patterns restricted to constructs meaning the same in Python `re` full-match and XSD
PATTERNS = ["[a-z]{1,5}", "[0-9]+", "A|BC", "[A-Z][a-z]*", "x?y{2}"]

FIELD_NAMES = ["a", "b", "c", "d", "i", "s", "x", "val", "name", "id", "type", "self", "A",
               "a_", "item", "data", "aResult", "Result", "v1", "v2", "f0", "f1", "f2", "f3"]
CLASS_NAMES = ["C%d" % i for i in range(12)]


def int_bounds(t):
    if t in SIGNED:
        b = SIGNED[t]
        return -2 ** (b - 1), 2 ** (b - 1) - 1
    if t in UNSIGNED:
        return 0, 2 ** UNSIGNED[t] - 1
    if t == "UnsignedInteger":
        return 0, None
    return None, None


@st.composite
def prim_trefs(draw, facets=True, kinds=None, exclude=()):
    names = sorted(n for n in PRIM_KIND if n not in exclude
                   and (kinds is None or PRIM_KIND[n] in kinds))
    t = draw(st.sampled_from(names))
    f = {}
    if facets and draw(st.integers(0, 3)) == 0:
        k = PRIM_KIND[t]
        if k == "int":
            lo, hi = int_bounds(t)
            a = draw(st.integers(lo if lo is not None else -1000, hi if hi is not None else 1000))
            b = draw(st.integers(a, hi if hi is not None else a + 2000))
            f = {"ge": jv.enc(a), "le": jv.enc(b)}
        elif k == "text" and t == "Unicode":
            c = draw(st.integers(0, 3))
            if c == 0:
                f = {"max_len": draw(st.integers(1, 12))}
            elif c == 1:
                lo = draw(st.integers(0, 3))
                f = {"min_len": lo, "max_len": lo + draw(st.integers(0, 8))}
            elif c == 2:
                f = {"pattern": draw(st.sampled_from(PATTERNS))}
            else:
                f = {"values": draw(st.lists(st.sampled_from(["a", "b", "xyz", "A b", "é", ""]),
                                             min_size=1, max_size=4, unique=True))}
        elif k == "dec" and draw(st.booleans()):
            f = {"ge": jv.enc(__import__("decimal").Decimal("-1000.5")),
                 "le": jv.enc(__import__("decimal").Decimal("1000.5"))}
        elif k == "bytes":
            f = {"encoding": draw(st.sampled_from(["base64", "hex"]))}
    return {"k": "prim", "t": t, "f": f}


def occs(allow_multi=True):
    maxes = [1, 1, 1]
    if allow_multi:
        maxes += [2, 3, "unbounded"]
    return st.fixed_dictionaries({"min": st.sampled_from([0, 0, 1]),
                                  "max": st.sampled_from(maxes),
                                  "nillable": st.sampled_from([True, True, False])})


@st.composite
def field_trefs(draw, prior_classes, enums, xml=True, depth_ok=True, facets=True,
                prim_exclude=()):
    """a type reference usable as a member of a complex class"""
    choices = ["prim", "prim", "prim"]
    if prior_classes and depth_ok:
        choices += ["ref", "array_ref"]
    if enums:
        choices.append("enum")
    choices.append("array_prim")
    if xml:
        choices.append("attr")
    c = draw(st.sampled_from(choices))
    if c == "prim":
        t = draw(prim_trefs(facets=facets, exclude=prim_exclude))
        t["occ"] = draw(occs())
    elif c == "ref":
        t = {"k": "ref", "n": draw(st.sampled_from(prior_classes)), "occ": draw(occs())}
    elif c == "enum":
        t = {"k": "enum", "n": draw(st.sampled_from(enums)), "occ": draw(occs(False))}
    elif c == "array_ref":
        t = {"k": "array", "of": {"k": "ref", "n": draw(st.sampled_from(prior_classes))},
             "occ": draw(occs(False))}
    elif c == "array_prim":
        t = {"k": "array", "of": draw(prim_trefs(facets=False, exclude=prim_exclude)),
             "occ": draw(occs(False))}
    else:
        t = {"k": "attr", "of": draw(prim_trefs(facets=False,
                                                exclude=tuple(prim_exclude) + ("ByteArray",)))}
    return t


@st.composite
def universes(draw, max_classes=4, xml=True, inheritance=True, multi_ns=True, facets=True,
              prim_exclude=(), xmldata=False, same_names=True):
    salt = draw(st.integers(0, 2 ** 32 - 1))
    tns = "urn:t%08x" % salt
    nss = [tns]
    if multi_ns and draw(st.booleans()):
        nss.append("urn:n1x%08x" % salt)
        if draw(st.booleans()):
            nss.append("http://example.com/n2/%08x" % salt)
    enums = []
    if draw(st.integers(0, 3)) == 0:
        enums.append({"name": "E0", "ns": draw(st.sampled_from(nss)),
                      "values": draw(st.lists(st.sampled_from(["red", "green", "blue", "A", "b1"]),
                                              min_size=1, max_size=4, unique=True))})
    n = draw(st.integers(0, max_classes))
    classes = []
    for i in range(n):
        name = CLASS_NAMES[i]
        prior = [c["name"] for c in classes]
        ext = None
        if inheritance and prior and draw(st.integers(0, 3)) == 0:
            ext = draw(st.sampled_from(prior))
        nf = draw(st.integers(1, 4))
        inherited = set()
        e = ext
        while e is not None:
            pc = [c for c in classes if c["name"] == e][0]
            inherited.update(f[0] for f in pc["fields"])
            e = pc["extends"]
        fnames = draw(st.lists(st.sampled_from([f for f in FIELD_NAMES if f not in inherited]),
                               min_size=nf, max_size=nf, unique=True))
        fields = []
        for fn in fnames:
            fields.append([fn, draw(field_trefs(prior, [e["name"] for e in enums], xml=xml,
                                                facets=facets, prim_exclude=prim_exclude))])
        ns = draw(st.sampled_from(nss))
        if ext is not None:
            # subclasses live in the namespace of their base (the placement the interface
            # registers for substitution)
            ns = [c for c in classes if c["name"] == ext][0]["ns"]
        classes.append({"name": name, "ns": ns, "extends": ext, "fields": fields})
    if same_names and len(nss) > 1 and draw(st.integers(0, 3)) == 0:
        # two unrelated classes with the SAME type name in different namespaces
        # ({urn:crm}Address next to {urn:logistics}Address)
        for a in classes:
            for b in classes:
                if a is not b and a["ns"] != b["ns"] and not a.get("type_name") \
                        and not b.get("type_name") and a["extends"] is None and b["extends"] is None \
                        and not any(c["extends"] in (a["name"], b["name"]) for c in classes):
                    b["type_name"] = a["name"]
                    # ... with an equally named member whose occurrence bounds differ
                    if not any(f[0] == "dup" for f in a["fields"] + b["fields"]):
                        dt = draw(prim_trefs(facets=False, exclude=tuple(prim_exclude) + ("ByteArray",)))
                        a["fields"].append(["dup", dict(dt, occ={"min": 0, "max": 1, "nillable": True})])
                        b["fields"].append(["dup", dict(dt, occ={"min": 0, "max": "unbounded", "nillable": True})])
                    break
            else:
                continue
            break
    U = {"tns": tns, "nss": nss, "classes": classes, "enums": enums}
    pair = [(a["name"], b["name"]) for a in classes for b in classes
            if b.get("type_name") == a["name"]]
    if pair:
        U["same_named"] = list(pair[0])
    return U


@st.composite
def arg_trefs(draw, U, xml=True, facets=True, prim_exclude=()):
    """a type reference usable as a method argument or return value"""
    cn = [c["name"] for c in U["classes"]]
    en = [e["name"] for e in U["enums"]]
    choices = ["prim", "prim", "array_prim", "multi_prim"]
    if cn:
        choices += ["ref", "ref", "array_ref", "multi_ref"]
    if en:
        choices.append("enum")
    c = draw(st.sampled_from(choices))
    occ1 = {"min": draw(st.sampled_from([0, 0, 1])), "max": 1,
            "nillable": draw(st.sampled_from([True, True, False]))}
    if c == "prim":
        return dict(draw(prim_trefs(facets=facets, exclude=prim_exclude)), occ=occ1)
    if c == "ref":
        return {"k": "ref", "n": draw(st.sampled_from(cn)), "occ": occ1}
    if c == "enum":
        return {"k": "enum", "n": draw(st.sampled_from(en)), "occ": occ1}
    if c == "array_prim":
        return {"k": "array", "of": draw(prim_trefs(facets=False, exclude=prim_exclude)),
                "occ": occ1}
    if c == "array_ref":
        return {"k": "array", "of": {"k": "ref", "n": draw(st.sampled_from(cn))}, "occ": occ1}
    occm = {"min": draw(st.sampled_from([0, 0, 1])), "max": draw(st.sampled_from([2, 3, "unbounded"])),
            "nillable": True}
    if c == "multi_prim":
        return dict(draw(prim_trefs(facets=False, exclude=prim_exclude)), occ=occm)
    return {"k": "ref", "n": draw(st.sampled_from(cn)), "occ": occm}


ARG_NAMES = ["a", "b", "c", "d", "x", "s", "val", "arg0", "p"]
METHOD_NAMES = ["m0", "m1", "echo", "Get", "get", "getX", "put_it", "m0x", "xm0"]


@st.composite
def methods(draw, U, name=None, xml=True, styles=("wrapped",), max_args=4, facets=True,
            prim_exclude=(), multi_ret=True):
    name = name or draw(st.sampled_from(METHOD_NAMES))
    style = draw(st.sampled_from(styles))
    cn = [c["name"] for c in U["classes"]]
    if style == "bare":
        # bare: at most one argument; a complex argument must have members
        if cn and draw(st.booleans()):
            args = [["a", {"k": "ref", "n": draw(st.sampled_from(cn)),
                           "occ": {"min": 0, "max": 1, "nillable": True}}]]
        else:
            args = [["a", dict(draw(prim_trefs(facets=False, exclude=prim_exclude)),
                               occ={"min": 0, "max": 1, "nillable": True})]]
        if not xml and draw(st.integers(0, 3)) == 0:
            # a bare array argument (dict families): {"m0": [..]}
            inner = {"k": "ref", "n": draw(st.sampled_from(cn))} if cn and draw(st.booleans()) \
                else draw(prim_trefs(facets=False, exclude=prim_exclude))
            args = [["a", {"k": "array", "of": inner, "occ": {"min": 0, "max": 1, "nillable": True}}]]
        if draw(st.integers(0, 4)) == 0:
            args = []
    else:
        na = draw(st.integers(0, max_args))
        names = draw(st.lists(st.sampled_from(ARG_NAMES), min_size=na, max_size=na, unique=True))
        args = [[n, draw(arg_trefs(U, xml=xml, facets=facets, prim_exclude=prim_exclude))]
                for n in names]
    if style in ("bare", "out_bare"):
        nr = draw(st.integers(0, 1))
    else:
        nr = draw(st.sampled_from([0, 1, 1, 1, 2, 3] if multi_ret else [0, 1, 1]))
    if style in ("bare", "out_bare") and nr == 1:
        # a bare return is itself the body element: a single-occurrence type
        r = draw(arg_trefs(U, xml=xml, facets=facets, prim_exclude=prim_exclude))
        while r.get("occ", {}).get("max", 1) != 1:
            r = draw(arg_trefs(U, xml=xml, facets=facets, prim_exclude=prim_exclude))
        ret = [r]
    else:
        ret = [draw(arg_trefs(U, xml=xml, facets=facets, prim_exclude=prim_exclude))
               for _ in range(nr)]
    return {"name": name, "args": args, "ret": ret, "style": style}


def shape_hash(obj):
    return hashlib.blake2b(json.dumps(obj, sort_keys=True).encode(), digest_size=8).hexdigest()
